package conformance

import (
	"go/types"
	"testing"
)

// axiom (xtype contracts, used by ZeroValue): every *types.Basic is a string, numeric or boolean type, or
// unsafe.Pointer, untyped nil or the invalid type. The set of basic types is finite: this check is exhaustive.
func TestBasicInfoAxiom(t *testing.T) {
	all := append([]*types.Basic{}, types.Typ...)
	all = append(all, types.Universe.Lookup("byte").Type().(*types.Basic), types.Universe.Lookup("rune").Type().(*types.Basic))
	for _, b := range all {
		ok := b.Info()&types.IsString != 0 || b.Info()&types.IsNumeric != 0 || b.Info()&types.IsBoolean != 0 ||
			b.Kind() == types.UnsafePointer || b.Kind() == types.UntypedNil || b.Kind() == types.Invalid
		if !ok {
			t.Fatalf("basic type %s (kind %d, info %b) is outside the axiom", b, b.Kind(), b.Info())
		}
	}
}

// axiom: the underlying type of a *types.Named of a package that type-checked is a typed valid basic type or an
// unnamed composite type (never named, alias, type parameter, tuple or union). Checked on the sample program.
func TestNamedUnderlyingAxiom(t *testing.T) {
	n := 0
	for _, x := range reachable(t) {
		named, ok := x.(*types.Named)
		if !ok {
			continue
		}
		n++
		switch u := named.Underlying().(type) {
		case *types.Basic:
			if u.Kind() == types.UntypedNil || u.Kind() == types.Invalid {
				t.Fatalf("%s: underlying %s", named, u)
			}
		case *types.Struct, *types.Array, *types.Interface, *types.Signature, *types.Pointer, *types.Map, *types.Slice, *types.Chan:
		default:
			t.Fatalf("%s: underlying %T is outside the axiom", named, u)
		}
	}
	if n == 0 {
		t.Fatal("no named type in the sample")
	}
}
