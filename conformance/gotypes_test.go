package conformance

import (
	"go/ast"
	"go/importer"
	"go/parser"
	"go/token"
	"go/types"
	"testing"
)

const sample = `package p

import "io"

type B int
type S struct{ A int; B *S; C []B; D map[string][]*S; E [3]B; F func(a int, b ...string) (B, error); G io.Reader; H chan int; I interface{ M() } }
type G[T any] struct{ V T; L []G[T] }
type Alias = map[B]S
var V struct{ X Alias; Y G[int]; Z *[2]**S }
func F(a S, b ...G[string]) (r B, err error) { return }
`

// every types.Type reachable from the declarations of a type-checked program
func reachable(t *testing.T) []types.Type {
	fset := token.NewFileSet()
	f, err := parser.ParseFile(fset, "p.go", sample, 0)
	if err != nil {
		t.Fatal(err)
	}
	conf := types.Config{Importer: importer.Default()}
	pkg, err := conf.Check("p", fset, []*ast.File{f}, nil)
	if err != nil {
		t.Fatal(err)
	}
	seen := map[types.Type]bool{}
	var out []types.Type
	var walk func(x types.Type, depth int)
	walk = func(x types.Type, depth int) {
		if x == nil || seen[x] || depth > 12 {
			return
		}
		seen[x] = true
		out = append(out, x)
		switch v := x.(type) {
		case *types.Alias:
			walk(types.Unalias(v), depth+1)
		case *types.Named:
			walk(v.Underlying(), depth+1)
			for i := 0; i < v.NumMethods(); i++ {
				walk(v.Method(i).Type(), depth+1)
			}
			if ta := v.TypeArgs(); ta != nil {
				for i := 0; i < ta.Len(); i++ {
					walk(ta.At(i), depth+1)
				}
			}
		case *types.Pointer:
			walk(v.Elem(), depth+1)
		case *types.Slice:
			walk(v.Elem(), depth+1)
		case *types.Array:
			walk(v.Elem(), depth+1)
		case *types.Map:
			walk(v.Key(), depth+1)
			walk(v.Elem(), depth+1)
		case *types.Chan:
			walk(v.Elem(), depth+1)
		case *types.Struct:
			for i := 0; i < v.NumFields(); i++ {
				walk(v.Field(i).Type(), depth+1)
			}
		case *types.Signature:
			for _, tup := range []*types.Tuple{v.Params(), v.Results()} {
				for i := 0; i < tup.Len(); i++ {
					walk(tup.At(i).Type(), depth+1)
				}
			}
		case *types.Interface:
			for i := 0; i < v.NumMethods(); i++ {
				walk(v.Method(i).Type(), depth+1)
			}
		}
	}
	for _, n := range pkg.Scope().Names() {
		walk(pkg.Scope().Lookup(n).Type(), 0)
	}
	return out
}

// depth of a type expression; named types count their underlying type once (only meaningful for the
// non-recursive part of the sample: the walk below stops at named types)
func depth(x types.Type) int {
	switch v := x.(type) {
	case *types.Pointer:
		return 1 + depth(v.Elem())
	case *types.Slice:
		return 1 + depth(v.Elem())
	case *types.Array:
		return 1 + depth(v.Elem())
	case *types.Map:
		k, e := depth(v.Key()), depth(v.Elem())
		if k > e {
			return 1 + k
		}
		return 1 + e
	}
	return 0
}

func TestGoTypesValueKinds(t *testing.T) {
	for _, x := range reachable(t) {
		switch v := x.(type) {
		case *types.Pointer, *types.Basic, *types.Map, *types.Slice, *types.Array, *types.Named, *types.Struct,
			*types.Interface, *types.Signature, *types.Chan, *types.TypeParam, *types.Alias:
			_ = v
		case *types.Tuple:
			// only as the result "type" of multi-value expressions, never handed to xtype.TypeOf
		default:
			t.Fatalf("a types.Type of kind %T is outside the assumed kinds", x)
		}
		if _, isAlias := x.(*types.Alias); !isAlias && types.Unalias(x) != x {
			t.Fatalf("Unalias is not the identity on the non-alias %v", x)
		}
		if types.Unalias(x) == nil {
			t.Fatal("Unalias returned nil")
		}
		if n, ok := x.(*types.Named); ok {
			if _, again := n.Underlying().(*types.Named); again {
				t.Fatalf("the underlying type of %v is named", n)
			}
			if n.Obj() == nil {
				t.Fatal("Named.Obj() is nil")
			}
		}
		// element types of unnamed composite types are strictly shallower (the TypeDepth axioms)
		switch v := x.(type) {
		case *types.Pointer:
			if depth(v.Elem()) >= depth(v) {
				t.Fatal("TypeDepth axiom (pointer)")
			}
		case *types.Slice:
			if depth(v.Elem()) >= depth(v) {
				t.Fatal("TypeDepth axiom (slice)")
			}
		case *types.Array:
			if depth(v.Elem()) >= depth(v) || v.Len() < 0 {
				t.Fatal("TypeDepth axiom (array)")
			}
		case *types.Map:
			if depth(v.Key()) >= depth(v) || depth(v.Elem()) >= depth(v) {
				t.Fatal("TypeDepth axiom (map)")
			}
		case *types.Struct:
			if v.NumFields() < 0 {
				t.Fatal("NumFields is negative")
			}
			for i := 0; i < v.NumFields(); i++ {
				if v.Field(i) == nil || v.Field(i).Type() == nil {
					t.Fatal("struct field or its type is nil")
				}
			}
		case *types.Signature:
			if v.Params().Len() < 0 || v.Results().Len() < 0 {
				t.Fatal("negative tuple length")
			}
			var nilTuple *types.Tuple
			if nilTuple.Len() != 0 {
				t.Fatal("Len of a nil tuple is not 0")
			}
			if v.Variadic() {
				if _, ok := v.Params().At(v.Params().Len() - 1).Type().(*types.Slice); !ok {
					t.Fatal("the last parameter of a variadic signature is not a slice")
				}
			}
		}
	}
	// universe objects have no package (xtype.loadEnum relies on it being nil, not panicking)
	if types.Universe.Lookup("error").Pkg() != nil {
		t.Fatal("universe object with a package")
	}
}
