module verif/conformance

go 1.23

require (
	github.com/dave/jennifer v1.6.0
	pgregory.net/rapid v1.3.0
)
