package conformance

// Bounded conformance tests of the contracts the engine ASSUMES for external functions
// (engine/extlib.go). Each test states the assumed axiom and checks it against the real library on
// generated inputs. A failure means the engine's model of a dependency is wrong (engine error, not a
// goverter defect). These tests bound nothing in the proofs; they only reduce the risk in the list of
// unchecked assumptions.

import (
	"fmt"
	"math"
	"path/filepath"
	"sort"
	"strings"
	"testing"

	"pgregory.net/rapid"
)

var strGen = rapid.StringOfN(rapid.RuneFrom([]rune("ab :.|@/\t\n")), 0, 12, -1)

func TestSplitN2(t *testing.T) {
	rapid.Check(t, func(t *rapid.T) {
		s, sep := strGen.Draw(t, "s"), rapid.SampledFrom([]string{" ", ":", "|", ".", "ab"}).Draw(t, "sep")
		parts := strings.SplitN(s, sep, 2)
		if strings.Contains(s, sep) {
			i := strings.Index(s, sep)
			if len(parts) != 2 || parts[0] != s[:i] || parts[1] != s[i+len(sep):] {
				t.Fatalf("SplitN model: %q %q -> %q", s, sep, parts)
			}
		} else if len(parts) != 1 || parts[0] != s {
			t.Fatalf("SplitN model (no sep): %q %q -> %q", s, sep, parts)
		}
		if parts == nil {
			t.Fatal("SplitN result is nil")
		}
	})
}

func TestCut(t *testing.T) {
	rapid.Check(t, func(t *rapid.T) {
		s, sep := strGen.Draw(t, "s"), rapid.SampledFrom([]string{" ", ":", "|", "."}).Draw(t, "sep")
		b, a, f := strings.Cut(s, sep)
		if f != strings.Contains(s, sep) {
			t.Fatal("Cut found")
		}
		if f {
			i := strings.Index(s, sep)
			if b != s[:i] || a != s[i+len(sep):] {
				t.Fatalf("Cut model %q %q", b, a)
			}
		} else if b != s || a != "" {
			t.Fatalf("Cut model (not found) %q %q", b, a)
		}
	})
}

func TestSplitAndFields(t *testing.T) {
	rapid.Check(t, func(t *rapid.T) {
		s, sep := strGen.Draw(t, "s"), rapid.SampledFrom([]string{" ", ":", "."}).Draw(t, "sep")
		parts := strings.Split(s, sep)
		if len(parts) < 1 {
			t.Fatal("Split: at least one part for a non-empty separator")
		}
		if !strings.Contains(s, sep) && (len(parts) != 1 || parts[0] != s) {
			t.Fatal("Split: no separator -> the string itself")
		}
		for _, f := range strings.Fields(s) {
			if f == "" || !strings.Contains(s, f) {
				t.Fatalf("Fields: every field is a non-empty substring (%q in %q)", f, s)
			}
		}
	})
}

func TestTrimAndPrefix(t *testing.T) {
	rapid.Check(t, func(t *rapid.T) {
		s, p := strGen.Draw(t, "s"), strGen.Draw(t, "p")
		want := s
		if strings.HasPrefix(s, p) {
			want = s[len(p):]
		}
		if strings.TrimPrefix(s, p) != want {
			t.Fatal("TrimPrefix model")
		}
		want = s
		if strings.HasSuffix(s, p) {
			want = s[:len(s)-len(p)]
		}
		if strings.TrimSuffix(s, p) != want {
			t.Fatal("TrimSuffix model")
		}
	})
}

func TestRepeatPanicsOnNegative(t *testing.T) {
	rapid.Check(t, func(t *rapid.T) {
		n := rapid.IntRange(-5, 5).Draw(t, "n")
		panicked := false
		func() {
			defer func() { panicked = recover() != nil }()
			_ = strings.Repeat("x", n)
		}()
		if panicked != (n < 0) {
			t.Fatalf("Repeat(%d) panicked=%v", n, panicked)
		}
	})
}

func TestSprintfKeepsLiteralPieces(t *testing.T) {
	rapid.Check(t, func(t *rapid.T) {
		a, b := strGen.Draw(t, "a"), rapid.IntRange(-9, 9).Draw(t, "b")
		out := fmt.Sprintf("error setting field %s: %d items\nuseZeroValueOnPointerInconsistency", a, b)
		for _, piece := range []string{"error setting field ", ": ", " items\nuseZeroValueOnPointerInconsistency"} {
			if !strings.Contains(out, piece) {
				t.Fatalf("Sprintf drops the literal piece %q", piece)
			}
		}
		if fmt.Errorf("x %s", a) == nil {
			t.Fatal("fmt.Errorf returns nil")
		}
	})
}

func TestMathMaxAndSort(t *testing.T) {
	rapid.Check(t, func(t *rapid.T) {
		x, y := rapid.Float64Range(-100, 100).Draw(t, "x"), rapid.Float64Range(-100, 100).Draw(t, "y")
		m := math.Max(x, y)
		if !((x >= y && m == x) || (x < y && m == y)) {
			t.Fatal("math.Max model")
		}
		xs := rapid.SliceOfN(strGen, 0, 8).Draw(t, "xs")
		before := append([]string(nil), xs...)
		wasNil := xs == nil
		sort.Strings(xs)
		if len(xs) != len(before) || (xs == nil) != wasNil {
			t.Fatal("sort.Strings changes length or nil-ness")
		}
		sort.Slice(before, func(i, j int) bool { return before[i] < before[j] })
		for i := range xs {
			if xs[i] != before[i] {
				t.Fatal("sort.Slice with a total comparator and sort.Strings disagree")
			}
		}
	})
}

func TestAbsIsAbs(t *testing.T) {
	rapid.Check(t, func(t *rapid.T) {
		p := rapid.StringOfN(rapid.RuneFrom([]rune("ab./")), 0, 10, -1).Draw(t, "p")
		a, err := filepath.Abs(p)
		if err == nil && !filepath.IsAbs(a) {
			t.Fatalf("Abs(%q) = %q is not absolute", p, a)
		}
	})
}
