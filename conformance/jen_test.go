package conformance

import (
	"fmt"
	"strings"
	"testing"

	"github.com/dave/jennifer/jen"
)

// token text without layout (jennifer decides spacing from the neighbouring tokens)
func render(c jen.Code) string { return strings.Join(strings.Fields(fmt.Sprintf("%#v", c)), "") }

// the intended reading of the assumed ghost relation Mentions(code, part): the rendering of `part`
// occurs in the rendering of `code`. The four axioms hold under this reading on the samples.
func TestJenMentionsAxioms(t *testing.T) {
	// (jennifer can only print fragments that are valid Go: statement prefixes followed by expressions)
	prefixes := []*jen.Statement{jen.Id("x").Op("="), jen.Return(), jen.Id("y").Op(":=").Id("f").Op("+")}
	exprs := []*jen.Statement{jen.Id("a"), jen.Lit(1), jen.Qual("strings", "ToUpper").Call(jen.Lit("s")), jen.Op("*").Id("p"), jen.Index().String().Values()}
	for _, c := range exprs {
		if !strings.Contains(render(c), render(c)) {
			t.Fatal("reflexivity")
		}
		for _, s := range prefixes {
			sum := s.Clone().Add(c.Clone())
			got := render(sum)
			if !strings.Contains(got, render(c)) {
				t.Fatalf("s.Add(c) does not mention c: %s in %s", render(c), got)
			}
			// what s mentioned is still there: its identifiers
			for _, tok := range []string{"x", "y", "f", "return"} {
				if strings.Contains(fmt.Sprintf("%#v", s.Clone().Add(jen.Id("q"))), tok) && !strings.Contains(got, tok) {
					t.Fatalf("s.Add(c) lost %q: %s", tok, got)
				}
			}
		}
	}
	// constructors return non-nil statements
	for _, s := range []*jen.Statement{jen.Id("x"), jen.Struct(), jen.Params(), jen.Func(), jen.Return(), jen.Nil(), jen.Lit(1), jen.Map(jen.String()), jen.Interface(), jen.Chan()} {
		if s == nil {
			t.Fatal("a jennifer constructor returned nil")
		}
	}
	// the rendering of a variadic parameter (F9)
	if got := render(jen.Var().Id("f").Func().Params(jen.Op("...").Add(jen.Int()))); !strings.Contains(got, "...int") {
		t.Fatalf("variadic rendering: %s", got)
	}
}
