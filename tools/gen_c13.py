#!/usr/bin/env python3
"""Adds property C13 to the contracts of the functions whose safety and call-precondition obligations all
discharge (list produced by `bin/vcheck -sweep-safety`, lines `CLEAN <key> <n>` with n > 0)."""
import re,sys,os
clean=[l.split()[1] for l in open('/verif/out/sweep2.txt') if l.startswith('CLEAN') and int(l.split()[2])>0]
files={'goverter':'goverter.go','config/parse':'config_parse.go'}
def cfile(pkg): return '/verif/contracts/'+files.get(pkg,pkg+'.go')
added=0
for key in clean:
    # key = pkg.Func or pkg.Recv.Func ; pkg may contain '/'
    if key.startswith('config/parse.'): pkg,fn='config/parse',key[len('config/parse.'):]
    else: pkg,fn=key.split('.',1)
    path=cfile(pkg)
    if not os.path.exists(path):
        name=pkg.split('/')[-1]
        open(path,'w').write(f"//go:build verif\n\npackage {name}\n\n// Contracts for package {pkg} (comment-only; checked by /verif/engine).\n")
    s=open(path).read()
    m=re.search(r'^//@ func %s(\(|\n)'%re.escape(fn), s, re.M)
    if m:
        # find props line within the block
        i=m.start(); j=s.find('\n//@ func ', i+5)
        if j<0: j=len(s)
        blk=s[i:j]
        pm=re.search(r'^//@   props (.*)$', blk, re.M)
        if pm:
            if 'C13' in pm.group(1).split(): continue
            nb=blk[:pm.end()]+' C13'+blk[pm.end():]
        else:
            nl=blk.index('\n')
            nb=blk[:nl]+'\n//@   props C13'+blk[nl:]
        s=s[:i]+nb+s[j:]
    else:
        s=s.rstrip('\n')+f"\n\n//@ func {fn}\n//@   props C13\n"
    open(path,'w').write(s); added+=1
print('C13 added to',added,'contracts of',len(clean),'clean functions')
