#!/bin/sh
# usage: tools/confirm_many.sh <seed-id>...   (4 in parallel; one line per seed)
cd /verif
mkdir -p out/confirm
n=0
for id in "$@"; do
  ( r=$(tools/confirm_seed.sh $id 2>&1 | tail -3 | tr '\n' ' '); echo "$id $r" > out/confirm/$id.txt ) &
  n=$((n+1))
  if [ $((n % 4)) -eq 0 ]; then wait; fi
done
wait
for id in "$@"; do cat out/confirm/$id.txt; done
