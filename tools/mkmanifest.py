#!/usr/bin/env python3
"""Regenerates /verif/MANIFEST.json from the claim table below."""
import json, subprocess

CLAIMS = json.load(open('/verif/tools/claims.json'))

def hook_commits():
    try:
        out = subprocess.check_output(['git', '-C', '/repo', 'log', '--format=%H %s'], text=True)
    except Exception:
        return []
    return [l.split()[0] for l in out.splitlines() if l.split(' ', 1)[1].startswith('verif-hook:')]

checks = []
na = []
for pid in sorted(CLAIMS):
    c = CLAIMS[pid]
    if c.get('not_applicable'):
        na.append({'property_id': pid, 'reason': c['not_applicable']})
        continue
    checks.append({
        'property_id': pid,
        'quick_cmd': f'bin/vcheck -property {pid} -tier quick',
        'thorough_cmd': f'bin/vcheck -property {pid} -tier thorough',
        'evidence_file': f'/verif/evidence/{pid}.json',
        'replay_cmd_template': 'bin/vcheck -replay {path}',
        'engine': 'vcheck',
        'level_claimed': {'category': 'proof', 'text': c['text'], 'design_ref': c.get('design_ref', 'DESIGN.md §4 ' + pid)},
        'level_note': c['note'],
        'technique': c.get('technique', 'contract-based deductive verification: weakest-precondition style VC generation over go/ast+go/types from //@ contracts, discharged by z3/cvc5'),
    })

m = {
    'version': 1,
    'setup_cmd': 'make -C engine build',
    'hooks': {
        'guard': 'verif',
        'enable': 'go build -tags verif (the engine loads /repo with -tags verif; the guarded files are comment-only contract files <pkg>/zz_contracts_verif.go)',
        'baseline_off_cmd': "cd /repo && go test -mod=mod -json -vet=off -count=1 -timeout 25m ./...",
        'source_commits': hook_commits(),
        'add_only': True,
    },
    'engines': [{
        'name': 'vcheck', 'path': '/verif/engine',
        'serves_properties': [c['property_id'] for c in checks],
        'kind_free_text': 'own VC generator for Go (symbolic execution over the typed AST, modular by //@ contracts kept in build-tag-guarded comment files in /repo), SMT back ends z3 5.1.0 / z3 4.8.12 / cvc5 1.0.3',
    }],
    'checks': checks,
    'not_applicable': na,
    'notes': 'See DESIGN.md. Contracts live in /repo/<pkg>/zz_contracts_verif.go (mirror: /verif/contracts). Exit codes: 0 held, 1 VIOLATION, 2 engine error (contract no longer matches the code).',
}
json.dump(m, open('/verif/MANIFEST.json', 'w'), indent=1)
print('checks:', [c['property_id'] for c in checks], 'n/a:', [n['property_id'] for n in na])
