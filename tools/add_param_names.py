#!/usr/bin/env python3
# rewrites the `//@ func Name` headers of the contract mirror so that they carry the receiver and parameter
# names the contract text uses (bound by position by the engine): a renamed parameter or receiver in the code
# then does not invalidate the contract. Input: output of `bin/vcheck -print-headers`.
import subprocess,re,os,collections
env=dict(os.environ, VERIF_PREFER_MIRROR='1', GOFLAGS='-mod=mod', GOPROXY='off', GOSUMDB='off', GOTOOLCHAIN='local')
out=subprocess.run(['/verif/bin/vcheck','-print-headers'],capture_output=True,text=True,env=env,cwd='/verif').stdout
byfile=collections.defaultdict(dict)
for l in out.splitlines():
    parts=l.split('\t')
    if len(parts)!=3: continue
    f,name,hdr=parts
    byfile[f][name]=hdr
for f,m in byfile.items():
    if not f.startswith('/verif/contracts/'): continue
    lines=open(f).read().split('\n')
    for i,l in enumerate(lines):
        mm=re.match(r'^//@ func ([\w.\[\]*]+)(\(.*\))?\s*$',l)
        if mm and mm.group(1) in m:
            lines[i]='//@ func '+m[mm.group(1)]
    open(f,'w').write('\n'.join(lines))
print('rewritten',sum(len(v) for v in byfile.values()))
