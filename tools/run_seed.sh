#!/bin/sh
# usage: tools/run_seed.sh <seed-id> <property>...   applies /verif/seeded/<id>/patch.diff to /repo, runs the checks, reverts
id=$1; shift
cd /repo || exit 2
if ! git diff --quiet; then echo "/repo has uncommitted changes"; exit 2; fi
git apply /verif/seeded/$id/patch.diff || { echo "patch does not apply"; exit 2; }
cd /verif
for p in "$@"; do
  bin/vcheck -property $p -out /verif/out/seed-$id -evidence-dir /verif/out/seed-$id/evidence > /verif/out/seed-$id.$p.log 2>&1
  rc=$?
  grep -E "VIOLATION|ENGINE|^property" /verif/out/seed-$id.$p.log | cut -c1-220
  echo "rc($p)=$rc"
done
git -C /repo checkout -- . && git -C /repo status --short | head -3
# restore evidence of the unchanged tree afterwards (checks rewrite it)
