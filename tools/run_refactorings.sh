#!/bin/sh
# must-pass corpus: behaviour-preserving refactorings (produced by sub-agents that saw nothing of /verif) must NOT
# be reported. Each runs in its own scratch worktree (bin/vcheck -repo <wt> -all), 2 at a time.
cd /verif
export GOFLAGS=-mod=mod GOPROXY=off GOSUMDB=off GOTOOLCHAIN=local
out=${OUTDIR:-/verif/out/refcorpus}; rm -rf $out; mkdir -p $out
one() {
  id=$1
  wt=/tmp/refwt-$id
  git -C /repo worktree remove --force $wt >/dev/null 2>&1; rm -rf $wt
  git -C /repo worktree add -q --detach $wt HEAD || { echo "$id WORKTREE-FAILED"; return; }
  if ! git -C $wt apply /verif/refactorings/$id/patch.diff 2>/dev/null; then
    if ! git -C $wt apply -3 /verif/refactorings/$id/patch.diff >/dev/null 2>&1; then echo "$id PATCH-DOES-NOT-APPLY"; git -C /repo worktree remove --force $wt; return; fi
  fi
  ${VCHECK:-bin/vcheck} -repo $wt -all -out $out/$id -evidence-dir $out/$id/evidence > $out/$id.log 2>&1
  rc=$?
  git -C /repo worktree remove --force $wt >/dev/null 2>&1; rm -rf $wt
  rm -rf $out/$id/smt $out/$id/evidence   # ~3 GB per run
  n=$(grep -c '^VIOLATION' $out/$id.log)
  if [ "$n" = "0" ] && [ $rc -eq 0 ]; then echo "$id quiet"; else echo "$id ALARM rc=$rc: $(grep '^VIOLATION\|ENGINE' $out/$id.log | sed 's/.*replays\///' | cut -c1-90 | sort -u | head -4 | tr '\n' ';')"; fi
}
n=0
list="$@"; [ -z "$list" ] && list=$(ls refactorings)
for id in $list; do
  one $id > $out/$id.result &
  n=$((n+1))
  if [ $((n % ${PAR:-2})) -eq 0 ]; then wait; fi
done
wait
cat $out/*.result
git -C /repo worktree prune
