#!/bin/sh
# must-fail corpus: every seeded change must be reported by the check of its property.
# Each seed runs in its own scratch worktree of /repo HEAD (bin/vcheck -repo <worktree>), 3 at a time;
# /repo's working tree is not touched. Prints one line per seed; exit 1 if a seed is missed.
cd /verif
export GOFLAGS=-mod=mod GOPROXY=off GOSUMDB=off GOTOOLCHAIN=local
# optional arguments: seed ids (default: all)
out=/verif/out/corpus; [ $# -gt 0 ] && out=/verif/out/corpus-sel; out=${OUTDIR:-$out}; rm -rf $out; mkdir -p $out
one() {
  id=$1
  d=/verif/seeded/$id
  prop=$(python3 -c "import json;print(json.load(open('$d/meta.json'))['property'])")
  extra=""
  case $id in C09-1|C09-3|C09-7) extra="C15";; C09-5) extra="C16";; esac
  wt=/tmp/seedwt-$id
  git -C /repo worktree remove --force $wt >/dev/null 2>&1; rm -rf $wt
  git -C /repo worktree add -q --detach $wt HEAD || { echo "$id WORKTREE-FAILED"; return; }
  if ! git -C $wt apply $d/patch.diff 2>/dev/null; then
    if ! git -C $wt apply -3 $d/patch.diff >/dev/null 2>&1; then echo "$id PATCH-DOES-NOT-APPLY"; git -C /repo worktree remove --force $wt; return; fi
  fi
  res=""
  for p in $prop $extra; do
    ${VCHECK:-bin/vcheck} -repo $wt -property $p -out $out/$id -evidence-dir $out/$id/evidence > $out/$id.$p.log 2>&1
    res="$res$(grep '^VIOLATION' $out/$id.$p.log | head -2 | sed 's/.*replays\///' | cut -c1-100 | tr '\n' ';')"
  done
  git -C /repo worktree remove --force $wt >/dev/null 2>&1; rm -rf $wt
  rm -rf $out/$id/smt $out/$id/evidence   # the SMT files of one run are ~0.2 GB: keep only logs and replay files
  if [ -n "$res" ]; then echo "$id detected: $res"
  elif grep -q '"not_detected": true' $d/meta.json; then echo "$id NOT-DETECTED (documented in its meta.json and DESIGN.md section 5)"
  else echo "$id MISSED"; fi
}
n=0
list="$@"; [ -z "$list" ] && list=$(ls -d seeded/*/ | xargs -n1 basename)
for id in $list; do
  one $id > $out/$id.result &
  n=$((n+1))
  if [ $((n % 3)) -eq 0 ]; then wait; fi
done
wait
cat $out/*.result
git -C /repo worktree prune
if grep -q "MISSED\|DOES-NOT-APPLY\|FAILED" $out/*.result; then exit 1; fi
exit 0
