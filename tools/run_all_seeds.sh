#!/bin/sh
# must-fail corpus: every seeded change must be reported by the check of its property (uses /repo's working
# tree: applies the patch, runs the check, reverts). Prints one line per seed; exit 1 if a seed is missed.
cd /verif
miss=0
for d in seeded/*/; do
  id=$(basename $d)
  prop=$(python3 -c "import json;print(json.load(open('$d/meta.json'))['property'])")
  extra=""
  case $id in C09-1) extra="C15";; C09-3) extra="C15";; esac
  out=$(tools/run_seed.sh $id $prop $extra 2>&1)
  if echo "$out" | grep -q "^VIOLATION"; then
    echo "$id detected: $(echo "$out" | grep -c '^VIOLATION') violation line(s), first: $(echo "$out" | grep '^VIOLATION' | head -1 | sed 's/.*replays\///' | cut -c1-110)"
  else
    echo "$id MISSED"; miss=1
  fi
done
exit $miss
