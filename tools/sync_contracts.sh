#!/bin/sh
# Copies the contract mirror (/verif/contracts/<pkg>.go) into /repo/<dir>/zz_contracts_verif.go and
# commits the difference to /repo as one small "verif-hook:" commit.
set -e
cd /verif/contracts
for f in *.go; do
  short=${f%.go}
  case "$short" in
    goverter) dir=. ;;
    config_parse) dir=config/parse ;;
    *) dir=$short ;;
  esac
  cp "$f" "/repo/$dir/zz_contracts_verif.go"
done
cd /repo
git add -A '*zz_contracts_verif.go'
if git diff --cached --quiet; then echo "contracts already in sync"; else git commit -qm "verif-hook: contract files (comment-only, build tag verif): ${1:-update}"; echo "committed"; fi
