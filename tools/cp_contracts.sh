#!/bin/sh
# copy the contract mirror into /repo (no commit)
cd /verif/contracts
for f in *.go; do
  short=${f%.go}
  case "$short" in
    goverter) dir=. ;;
    config_parse) dir=config/parse ;;
    *) dir=$short ;;
  esac
  cp "$f" "/repo/$dir/zz_contracts_verif.go"
done
