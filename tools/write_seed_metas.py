#!/usr/bin/env python3
"""usage: tools/write_seed_metas.py <batch> <first-run-log> <later-log>... [--table descriptions.json]
Fills detected_on_first_run / detected_by / strengthening in /verif/seeded/<id>/meta.json for the seeds of <batch>
from the one-line-per-seed logs of tools/run_all_seeds.sh, and prints the DESIGN.md table rows."""
import json, re, sys, os, glob

batch = int(sys.argv[1])
logs = [a for a in sys.argv[2:] if not a.startswith('--')]
desc = {}
if '--table' in sys.argv:
    desc = json.load(open(sys.argv[sys.argv.index('--table') + 1]))


def parse(path):
    out = {}
    for line in open(path):
        m = re.match(r'^(C\d\d-\d+) (detected: (.*)|MISSED.*)$', line.strip())
        if not m:
            continue
        if m.group(3):
            by = []
            for part in m.group(3).split(';'):
                part = part.strip()
                if not part:
                    continue
                replayed = 'no-failing-input-found' not in part
                name = part.replace(' no-failing-input-found', '').replace('.json', '')
                by.append((name, replayed))
            out[m.group(1)] = by
        else:
            out[m.group(1)] = None
    return out


first = parse(logs[0])
later = {}
for l in logs[1:]:
    for k, v in parse(l).items():
        if v:
            later[k] = v

rows = []
for mf in sorted(glob.glob('/verif/seeded/*/meta.json')):
    d = json.load(open(mf))
    if d.get('batch') != batch:
        continue
    sid = os.path.basename(os.path.dirname(mf))
    f = first.get(sid)
    by = f or later.get(sid) or []
    d['detected_on_first_run'] = bool(f)
    d['detected_by'] = [n for n, _ in by]
    if f:
        d['strengthening'] = 'none needed: detected by the checks as they were when the change was produced'
    else:
        d['strengthening'] = 'missed by the checks as they were when the change was produced; detected after the contracts named in detected_by were added (DESIGN.md section 5)'
    if any(r for _, r in by):
        d['replayed'] = 'counterexample replayed on the real code: CONFIRMED'
    json.dump(d, open(mf, 'w'), indent=1)
    caught = '; '.join(n + (' (counterexample replayed on the real code: CONFIRMED)' if r else '') for n, r in by)
    rows.append('| %s | %s | %s | %s |' % (sid, desc.get(sid, ''), 'yes' if f else '**no**', caught or 'NOT DETECTED'))


def key(r):
    m = re.match(r'\| C(\d\d)-(\d+)', r)
    return (int(m.group(1)), int(m.group(2)))


print('| seed | change | first run | caught by |')
print('|---|---|---|---|')
for r in sorted(rows, key=key):
    print(r)
