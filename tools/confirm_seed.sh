#!/bin/sh
# usage: tools/confirm_seed.sh <seed-id>
# confirms in a scratch worktree: suite passes with the change; demo fails with it and passes without it
id=$1
export GOFLAGS=-mod=mod GOPROXY=off GOSUMDB=off GOTOOLCHAIN=local
wt=/tmp/confirm-$id
git -C /repo worktree remove --force $wt 2>/dev/null; rm -rf $wt
git -C /repo worktree add -q --detach $wt HEAD || exit 2
cd $wt
git apply /verif/seeded/$id/patch.diff || { echo "PATCH DOES NOT APPLY"; exit 2; }
go build ./... || { echo "BUILD FAILS"; exit 2; }
suite=$(go test -mod=mod -vet=off -count=1 ./... 2>&1 | grep -c "^FAIL")
echo "suite-with-change: FAIL-lines=$suite"
# place demos
runpat=""
for f in /verif/seeded/$id/*.yml; do [ -f "$f" ] && cp "$f" scenario/ && n=$(basename $f .yml) && runpat="$runpat|TestScenario/$n\$"; done
for f in /verif/seeded/$id/seed_demo_test.go /verif/seeded/$id/seed_demo_test.go.txt; do [ -f "$f" ] && cp "$f" ./seed_demo_test.go && runpat="$runpat|TestSeed"; done
runpat=${runpat#|}
with=$(go test -mod=mod -vet=off -count=1 -run "$runpat" . 2>&1 | tail -1)
git apply -R /verif/seeded/$id/patch.diff
without=$(go test -mod=mod -vet=off -count=1 -run "$runpat" . 2>&1 | tail -1)
echo "demo-with-change:    $with"
echo "demo-without-change: $without"
cd /; git -C /repo worktree remove --force $wt
