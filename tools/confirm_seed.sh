#!/bin/sh
# usage: tools/confirm_seed.sh <seed-id>
# confirms in a scratch worktree: suite passes with the change; demo fails with it and passes without it
id=$1
export GOFLAGS=-mod=mod GOPROXY=off GOSUMDB=off GOTOOLCHAIN=local
wt=/tmp/confirm-$id
git -C /repo worktree remove --force $wt 2>/dev/null; rm -rf $wt
git -C /repo worktree add -q --detach $wt HEAD || exit 2
cd $wt
git apply /verif/seeded/$id/patch.diff || { echo "PATCH DOES NOT APPLY"; cd /; git -C /repo worktree remove --force $wt; exit 2; }
go build ./... || { echo "BUILD FAILS"; cd /; git -C /repo worktree remove --force $wt; exit 2; }
suite=$(go test -mod=mod -vet=off -count=1 ./... 2>&1 | grep -c "^FAIL")
echo "suite-with-change: FAIL-lines=$suite"
if [ -f /verif/seeded/$id/DEMO.txt ]; then
  # line 1: repo-relative path of the demo file, line 2: command (from the repo root)
  dst=$(sed -n 1p /verif/seeded/$id/DEMO.txt | tr -d '\r' | sed 's/^ *//;s/ *$//')
  cmd=$(sed -n 2p /verif/seeded/$id/DEMO.txt)
  mkdir -p "$(dirname "$dst")"
  cp "/verif/seeded/$id/$(basename "$dst")" "$dst" || { echo "DEMO FILE MISSING"; }
  with=$(sh -c "$cmd" 2>&1 | tail -1)
  git apply -R /verif/seeded/$id/patch.diff
  without=$(sh -c "$cmd" 2>&1 | tail -1)
else
  runpat=""
  for f in /verif/seeded/$id/*.yml; do [ -f "$f" ] && cp "$f" scenario/ && n=$(basename $f .yml) && runpat="$runpat|TestScenario/$n\$"; done
  for f in /verif/seeded/$id/seed_demo_test.go /verif/seeded/$id/seed_demo_test.go.txt; do [ -f "$f" ] && cp "$f" ./seed_demo_test.go && runpat="$runpat|TestSeed"; done
  runpat=${runpat#|}
  with=$(go test -mod=mod -vet=off -count=1 -run "$runpat" . 2>&1 | tail -1)
  git apply -R /verif/seeded/$id/patch.diff
  without=$(go test -mod=mod -vet=off -count=1 -run "$runpat" . 2>&1 | tail -1)
fi
echo "demo-with-change:    $with"
echo "demo-without-change: $without"
cd /; git -C /repo worktree remove --force $wt
