#!/bin/sh
# usage: tools/import_seed2.sh <property> <A|B> <new-seed-id> [batch]   (batch 2: /tmp/wt2-<property>/SEED/<A|B>, batch 3: /tmp/wt3-...)
p=$1; ab=$2; id=$3; batch=${4:-2}
src=/tmp/wt$batch-$p/SEED/$ab
[ -f $src/patch.diff ] || { echo "no patch in $src"; exit 2; }
mkdir -p /verif/seeded/$id
cp -r $src/* /verif/seeded/$id/
cat > /verif/seeded/$id/meta.json <<EOM
{
 "property": "$p",
 "breaks": "see NOTES.md (written by the sub-agent that produced the change)",
 "needs_to_manifest": "see NOTES.md",
 "produced_by": "fresh sub-agent (batch $batch) given only the property text (statement, quantification, mechanisms, anchor files) and a scratch worktree of /repo without contract files",
 "confirmed": "PENDING",
 "checked_with": "tools/run_all_seeds.sh / tools/run_seed.sh",
 "batch": $batch
}
EOM
echo imported $id
