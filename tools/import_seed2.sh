#!/bin/sh
# usage: tools/import_seed2.sh <property> <A|B> <new-seed-id>   (batch 2: /tmp/wt2-<property>/SEED/<A|B>)
p=$1; ab=$2; id=$3
src=/tmp/wt2-$p/SEED/$ab
[ -f $src/patch.diff ] || { echo "no patch in $src"; exit 2; }
mkdir -p /verif/seeded/$id
cp -r $src/* /verif/seeded/$id/
# Go demo files must not be picked up by tooling that walks /verif: keep them as .txt beside the original name
cat > /verif/seeded/$id/meta.json <<EOM
{
 "property": "$p",
 "breaks": "see NOTES.md (written by the sub-agent that produced the change)",
 "needs_to_manifest": "see NOTES.md",
 "produced_by": "fresh sub-agent (second batch) given only the property text (statement, quantification, mechanisms) and a scratch worktree of /repo without contract files",
 "confirmed": "PENDING",
 "checked_with": "tools/run_seed.sh (git -C /repo apply patch.diff; bin/vcheck -property <id>; git -C /repo checkout -- .)"
}
EOM
echo imported $id
