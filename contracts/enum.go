//go:build verif

package enum

// Contracts for package enum (comment-only; checked by /verif/engine).

//@ func IDPatterns.Matches
//@   props C08
//@   pure
