//go:build verif

package enum

// Contracts for package enum (comment-only; checked by /verif/engine).

// a type is excluded when SOME pattern matches both its package path and its name
//@ func IDPatterns.Matches(ids; path, name)
//@   props C08
//@   pure
//@   loop 1 invariant forall j int :: 0 <= j && j < idx ==> !(ids[j].Path.MatchString(path) && ids[j].Name.MatchString(name))
//@   ensures result == (exists j int :: 0 <= j && j < len(ids) && ids[j].Path.MatchString(path) && ids[j].Name.MatchString(name))

// Detect only fills a map it allocates itself
//@ func Detect(named)
//@   props C08
//@   assigns nothing
// every constant of the named type declared in its package is a member, exported or not
//@   loop 1 invariant forall j int :: 0 <= j && j < idx && dynIs[*types.Const](scope.Lookup(scope.Names()[j])) && types.Identical(named, scope.Lookup(scope.Names()[j]).Type()) ==> has(members, scope.Names()[j])
//@   ensures !result1 ==> result0.Members == nil
// which named types qualify: integer, float and string kinds (docs: "any named type with an underlying integer,
// float or string type that has at least one constant"); nothing else is rejected before looking at the constants
//@   at@C08 return assert dynIs[*types.Basic](named.Underlying()) && unboxed[*types.Basic](named.Underlying()).Info()&(types.IsFloat|types.IsString|types.IsInteger) != 0 ==> reached("named.Obj#1")
//@   at@C08 return assert !dynIs[*types.Basic](named.Underlying()) || unboxed[*types.Basic](named.Underlying()).Info()&(types.IsFloat|types.IsString|types.IsInteger) == 0 ==> !result1

// C08: the built-in regex transformer maps a source member to pattern.ReplaceAllString(member, replacement) -- the
// whole name with every match replaced -- exactly when that names a member of the target enum
//@ func transformRegex(ctx)
//@   props C08
//@   loop 1 invariant m != nil && isFresh(m)
//@   loop 1 invariant forall k string :: has(ctx.Source.Members, k) == old(has(ctx.Source.Members, k))
//@   loop 1 invariant forall k string :: has(ctx.Target.Members, k) == old(has(ctx.Target.Members, k))
//@   loop 1 invariant forall k string :: has(m, k) ==> has(ctx.Source.Members, k)
//@   loop 1 invariant forall k string :: has(m, k) ==> m[k] == pattern.ReplaceAllString(k, parts[1])
//@   loop 1 invariant forall k string :: has(m, k) ==> has(ctx.Target.Members, m[k])
//@   loop 1 invariant forall k string :: has(seen, k) && has(ctx.Target.Members, pattern.ReplaceAllString(k, parts[1])) ==> has(m, k)
//@   at return assert err == nil ==> (forall k string :: has(m, k) ==> has(ctx.Source.Members, k) && m[k] == pattern.ReplaceAllString(k, parts[1]) && has(ctx.Target.Members, m[k]))
//@   at return assert err == nil ==> (forall k string :: has(ctx.Source.Members, k) && has(ctx.Target.Members, pattern.ReplaceAllString(k, parts[1])) ==> has(m, k))
