//go:build verif

package enum

// Contracts for package enum (comment-only; checked by /verif/engine).

// a type is excluded when SOME pattern matches both its package path and its name
//@ func IDPatterns.Matches(ids; path, name)
//@   props C08
//@   pure
//@   loop 1 invariant forall j int :: 0 <= j && j < idx ==> !(ids[j].Path.MatchString(path) && ids[j].Name.MatchString(name))
//@   ensures result == (exists j int :: 0 <= j && j < len(ids) && ids[j].Path.MatchString(path) && ids[j].Name.MatchString(name))

// Detect only fills a map it allocates itself
//@ func Detect(named)
//@   props C08
//@   assigns nothing
// every constant of the named type declared in its package is a member, exported or not
//@   loop 1 invariant forall j int :: 0 <= j && j < idx && dynIs[*types.Const](scope.Lookup(scope.Names()[j])) && types.Identical(named, scope.Lookup(scope.Names()[j]).Type()) ==> has(members, scope.Names()[j])
//@   ensures !result1 ==> result0.Members == nil
