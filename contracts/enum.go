//go:build verif

package enum

// Contracts for package enum (comment-only; checked by /verif/engine).

//@ func IDPatterns.Matches
//@   props C08
//@   pure

// Detect only fills a map it allocates itself
//@ func Detect
//@   props C08
//@   assigns nothing
//@   ensures !result1 ==> result0.Members == nil
