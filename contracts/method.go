//go:build verif

package method

// Contracts for package method (comment-only; checked by /verif/engine).

// ---- C14: role of parameter j of signature sig under the parse options ----
//@ pred PName(sig *types.Signature, j int) string = sig.Params().At(j).Name()
//@ pred IsIface(sig *types.Signature, opts *ParseOpts, j int) bool = types.Identical(types.Unalias(sig.Params().At(j).Type()), opts.Converter)
//@ pred IsTarget(sig *types.Signature, opts *ParseOpts, j int) bool = !IsIface(sig, opts, j) && opts.UpdateParam != "" && PName(sig, j) == opts.UpdateParam
//@ pred IsCtx(sig *types.Signature, opts *ParseOpts, lo LocalOpts, j int) bool = !IsIface(sig, opts, j) && !IsTarget(sig, opts, j)
//@     && ((opts.ContextMatch != nil && opts.ContextMatch.MatchString(PName(sig, j))) || lo.Context[PName(sig, j)])
//@ pred Plain(sig *types.Signature, opts *ParseOpts, lo LocalOpts, j int) bool = !IsIface(sig, opts, j) && !IsTarget(sig, opts, j) && !IsCtx(sig, opts, lo, j)
// role class of parameter j: interface > update target > context > (additional) source
//@ pred RoleClassOK(sig *types.Signature, opts *ParseOpts, lo LocalOpts, j int, use ArgUse) bool =
//@        (IsIface(sig, opts, j) ==> use == ArgUseInterface)
//@     && (IsTarget(sig, opts, j) ==> use == ArgUseTarget)
//@     && (IsCtx(sig, opts, lo, j) ==> use == ArgUseContext)
//@     && (Plain(sig, opts, lo, j) ==> use == ArgUseSource || use == ArgUseMultiSource)

//@ func isError(obj)
//@   props C14 C13
//@   pure
//@   requires@C13 obj != nil
//@   ensures result == (dynIs[*types.Named](obj.Type()) && unboxed[*types.Named](obj.Type()).Obj().Name() == "error" && unboxed[*types.Named](obj.Type()).Obj().Pkg() == nil)

//@ func Parse(obj, opts, localOpts)
//@   props C14 C10 C06 C13
//@   requires@C13 obj != nil && opts != nil
//@   assigns nothing
//@   ensures err == nil ==> result != nil && isFresh(result)
//@   ensures err != nil ==> result == nil
//@   ensures err == nil ==> xtype.Accessible(obj, opts.OutputPackagePath) && dynIs[*types.Signature](obj.Type())
// every parameter is recorded, in declared order, with its role
//@   ensures err == nil ==> len(result.RawArgs) == unboxed[*types.Signature](obj.Type()).Params().Len()
//@   ensures err == nil ==> (forall j int :: 0 <= j && j < len(result.RawArgs) ==> result.RawArgs[j].Name == PName(unboxed[*types.Signature](obj.Type()), j) && result.RawArgs[j].Type != nil)
//@   ensures err == nil ==> (forall j int :: 0 <= j && j < len(result.RawArgs) ==> (IsIface(unboxed[*types.Signature](obj.Type()), opts, j) ==> result.RawArgs[j].Use == ArgUseInterface))
//@   ensures err == nil ==> (forall j int :: 0 <= j && j < len(result.RawArgs) ==> (IsTarget(unboxed[*types.Signature](obj.Type()), opts, j) ==> result.RawArgs[j].Use == ArgUseTarget))
//@   ensures err == nil ==> (forall j int :: 0 <= j && j < len(result.RawArgs) ==> (IsCtx(unboxed[*types.Signature](obj.Type()), opts, localOpts, j) ==> result.RawArgs[j].Use == ArgUseContext))
//@   ensures err == nil ==> (forall j int :: 0 <= j && j < len(result.RawArgs) ==> (Plain(unboxed[*types.Signature](obj.Type()), opts, localOpts, j) ==> result.RawArgs[j].Use == ArgUseSource || result.RawArgs[j].Use == ArgUseMultiSource))
// exactly one source / none / optional as the use site demands; never several
//@   ensures err == nil && opts.Params == ParamsRequired ==> result.Source != nil
//@   ensures err == nil && opts.Params == ParamsNone ==> result.Source == nil
//@   ensures err == nil && !opts.ParamsMultiSource ==> len(result.MultiSources) == 0
//@   ensures err == nil ==> (result.Source == nil) == (forall j int :: 0 <= j && j < len(result.RawArgs) ==> !Plain(unboxed[*types.Signature](obj.Type()), opts, localOpts, j))
//@   ensures err == nil && len(result.MultiSources) == 0 ==> (forall j int :: 0 <= j && j < len(result.RawArgs) ==> result.RawArgs[j].Use != ArgUseMultiSource)
//@   ensures err == nil && len(result.MultiSources) == 0 ==> (forall j int, k int :: 0 <= k && k < j && j < len(result.RawArgs) ==>
//@        !(Plain(unboxed[*types.Signature](obj.Type()), opts, localOpts, j) && Plain(unboxed[*types.Signature](obj.Type()), opts, localOpts, k)))
// results
//@   ensures err == nil ==> result.Target != nil
//@   ensures err == nil ==> result.UpdateTarget == (opts.UpdateParam != "")
//@   ensures err == nil ==> result.UpdateTarget == (exists j int :: 0 <= j && j < len(result.RawArgs) && IsTarget(unboxed[*types.Signature](obj.Type()), opts, j))
//@   ensures err == nil && !result.UpdateTarget ==> (unboxed[*types.Signature](obj.Type()).Results().Len() == 1 || unboxed[*types.Signature](obj.Type()).Results().Len() == 2)
//@   ensures err == nil && !result.UpdateTarget ==> result.ReturnError == (unboxed[*types.Signature](obj.Type()).Results().Len() == 2)
//@   ensures err == nil && !result.UpdateTarget && result.ReturnError ==> isError(unboxed[*types.Signature](obj.Type()).Results().At(1))
//@   ensures err == nil && result.UpdateTarget ==> unboxed[*types.Signature](obj.Type()).Results().Len() <= 1
//@   ensures err == nil && result.UpdateTarget ==> result.ReturnError == (unboxed[*types.Signature](obj.Type()).Results().Len() == 1)
//@   ensures err == nil && result.UpdateTarget && result.ReturnError ==> isError(unboxed[*types.Signature](obj.Type()).Results().At(0))
//@   ensures err == nil && result.UpdateTarget ==> (exists j int :: 0 <= j && j < len(result.RawArgs) && result.RawArgs[j].Use == ArgUseTarget)
// generics, naming, signature
//@   ensures err == nil && !opts.AllowTypeParams ==> !result.TypeParams
//@   ensures err == nil ==> result.Name == obj.Name() && result.Generated == opts.Generated && result.CustomCall == opts.CustomCall
//@   ensures err == nil ==> result.Signature.Target == result.Target.String
//@   ensures err == nil && result.Source != nil ==> result.Signature.Source == result.Source.String
//@   ensures err == nil ==> result.Context != nil
// loop: the processed prefix is classified
//@   loop 2 invariant 0 <= i && i <= sig.Params().Len() && len(methodDef.RawArgs) == i
//@   loop 2 invariant forall j int :: 0 <= j && j < i ==> methodDef.RawArgs[j].Name == PName(sig, j) && methodDef.RawArgs[j].Type != nil
//@   loop 2 invariant forall j int :: 0 <= j && j < i ==> (IsIface(sig, opts, j) ==> methodDef.RawArgs[j].Use == ArgUseInterface)
//@   loop 2 invariant forall j int :: 0 <= j && j < i ==> (IsTarget(sig, opts, j) ==> methodDef.RawArgs[j].Use == ArgUseTarget)
//@   loop 2 invariant forall j int :: 0 <= j && j < i ==> (IsCtx(sig, opts, localOpts, j) ==> methodDef.RawArgs[j].Use == ArgUseContext)
//@   loop 2 invariant forall j int :: 0 <= j && j < i ==> (Plain(sig, opts, localOpts, j) ==> methodDef.RawArgs[j].Use == ArgUseSource || methodDef.RawArgs[j].Use == ArgUseMultiSource)
//@   loop 2 invariant (methodDef.Source == nil) == (forall j int :: 0 <= j && j < i ==> !Plain(sig, opts, localOpts, j))
//@   loop 2 invariant forall j int :: 0 <= j && j < i && methodDef.RawArgs[j].Use == ArgUseMultiSource ==> len(methodDef.MultiSources) > 0
//@   loop 2 invariant forall j int, k int :: 0 <= k && k < j && j < i && Plain(sig, opts, localOpts, j) && Plain(sig, opts, localOpts, k) ==> len(methodDef.MultiSources) > 0
//@   loop 2 invariant methodDef.UpdateTarget == (exists j int :: 0 <= j && j < i && IsTarget(sig, opts, j))
//@   loop 2 invariant methodDef.UpdateTarget ==> methodDef.Target != nil && sig.Results().Len() <= 1 && methodDef.ReturnError == (sig.Results().Len() == 1) && (methodDef.ReturnError ==> isError(sig.Results().At(0)))
//@   loop 2 invariant methodDef.UpdateTarget ==> (exists j int :: 0 <= j && j < i && methodDef.RawArgs[j].Use == ArgUseTarget)
//@   loop 2 invariant !methodDef.UpdateTarget ==> !methodDef.ReturnError
//@   loop 2 invariant methodDef.Source != nil ==> methodDef.Signature.Source == methodDef.Source.String
//@   loop 2 invariant methodDef.Name == obj.Name() && methodDef.Generated == opts.Generated && methodDef.CustomCall == opts.CustomCall
//@   loop 2 invariant methodDef.Context != nil && isFresh(methodDef.Context)
//@   loop 2 invariant methodDef.TypeParams == (sig.TypeParams().Len() > 0)
//@   loop 2 decreases sig.Params().Len() - i

// ---- C09 ----
//@ func Index.GetAll(l; )
//@   props C09
//@   maprange 1 unordered-result items

//@ func AvailableContextDebug(required, available)
//@   props C09
//@   assigns nothing
//@   maprange 1 unordered-result lines

// ---- C06: the method index as a data structure ----
// view: l.Exact : Signature -> sequence of entries (Def, Item); l.Update : sequence of items
//@ pred CtxSubset(required map[string]*xtype.Type, available map[string]*xtype.Type) bool = forall k string :: has(required, k) ==> has(available, k)

// satisfiesContext(required, m) is "the keys of required are a subset of the keys of m"; callers reason with
// the function symbol itself (opaque), its meaning is proved here once
//@ func satisfiesContext(required, m)
//@   props C06
//@   pure
//@   opaque
//@   ensures result == CtxSubset(required, m)
//@   loop 1 invariant forall k string :: has(seen, k) ==> has(m, k)

//@ func checkOverlap(left, right)
//@   props C06 C13
//@   pure
//@   requires@C13 left != nil && right != nil
//@   ensures (result != nil) == satisfiesContext(left.Context, right.Context)

//@ func Index.Has(l; sig)
//@   props C06 C13
//@   pure
//@   requires@C13 l != nil
//@   ensures result == has(l.Exact, sig)

// representation invariant: every registered entry has a definition and an item
//@ pred IndexWF[T any](l *Index[T]) bool = l != nil && l.Exact != nil
//@     && (forall s xtype.Signature, j int :: has(l.Exact, s) && 0 <= j && j < len(l.Exact[s]) ==> l.Exact[s][j].Def != nil && l.Exact[s][j].Item != nil)
//@ pred ValidID[T any](l *Index[T], id IndexID) bool =
//@     (id.update ==> 0 <= id.idx && id.idx < len(l.Update))
//@     && (!id.update ==> has(l.Exact, id.sig) && 0 <= id.idx && id.idx < len(l.Exact[id.sig]))

//@ func Index.ByID(l; id)
//@   props C06 C13
//@   pure
//@   requires@C13 l != nil
//@   requires@C13 ValidID(l, id)
//@   ensures result == ite(id.update, l.Update[id.idx], l.Exact[id.sig][id.idx].Item)

//@ func satisfiedError(sig, available, hits)
//@   props C06 C13
//@   pure
//@   requires@C13 forall j int :: 0 <= j && j < len(hits) ==> hits[j].Def != nil
//@   ensures result != nil

// Get: nil/nil iff the signature is absent; otherwise the FIRST entry whose required context is available,
// or an error when no entry is satisfiable
//@ func Index.Get(l; sig, m)
//@   props C06 C13
//@   pure
//@   requires@C13 IndexWF(l)
//@   assigns nothing
//@   ensures !has(l.Exact, sig) ==> result == nil && err == nil
//@   ensures has(l.Exact, sig) && err == nil ==> (exists j int :: 0 <= j && j < len(l.Exact[sig]) && result == l.Exact[sig][j].Item
//@           && satisfiesContext(l.Exact[sig][j].Def.Context, m)
//@           && (forall i int :: 0 <= i && i < j ==> !satisfiesContext(l.Exact[sig][i].Def.Context, m)))
//@   ensures has(l.Exact, sig) && err != nil ==> result == nil && (forall j int :: 0 <= j && j < len(l.Exact[sig]) ==> !satisfiesContext(l.Exact[sig][j].Def.Context, m))
//@   ensures has(l.Exact, sig) ==> (err == nil) == (exists j int :: 0 <= j && j < len(l.Exact[sig]) && satisfiesContext(l.Exact[sig][j].Def.Context, m))
//@   ensures err == nil && has(l.Exact, sig) ==> result != nil
//@   loop 1 invariant forall j int :: 0 <= j && j < idx ==> !satisfiesContext(hits[j].Def.Context, m)

// Register: appends (def, t) to the entries of def.Signature unless an existing entry overlaps in either
// direction; every other signature, every earlier entry and every earlier id stay intact
//@ func Index.Register(l; t, def)
//@   props C06 C13
//@   requires@C13 IndexWF(l) && def != nil && t != nil
//@   assigns map(l.Exact)
//@   ensures IndexWF(l)
//@   ensures (err == nil) == old(forall j int :: 0 <= j && j < len(l.Exact[def.Signature]) ==>
//@           !satisfiesContext(l.Exact[def.Signature][j].Def.Context, def.Context) && !satisfiesContext(def.Context, l.Exact[def.Signature][j].Def.Context))
//@   ensures err != nil ==> same(keys(l.Exact), old(keys(l.Exact))) && (forall s xtype.Signature :: same(l.Exact[s], old(l.Exact[s])))
//@   ensures err == nil ==> has(l.Exact, def.Signature) && len(l.Exact[def.Signature]) == len(old(l.Exact[def.Signature])) + 1
//@   ensures err == nil ==> l.Exact[def.Signature][len(old(l.Exact[def.Signature]))].Item == t && l.Exact[def.Signature][len(old(l.Exact[def.Signature]))].Def == def
//@   ensures err == nil ==> (forall j int :: 0 <= j && j < len(old(l.Exact[def.Signature])) ==> l.Exact[def.Signature][j] == old(l.Exact[def.Signature])[j])
//@   ensures err == nil ==> (forall s xtype.Signature :: s != def.Signature ==> same(l.Exact[s], old(l.Exact[s])) && has(l.Exact, s) == old(has(l.Exact, s)))
//@   ensures err == nil ==> !result0.update && result0.sig == def.Signature && result0.idx == len(old(l.Exact[def.Signature]))
//@   loop 1 invariant forall j int :: 0 <= j && j < idx ==> !satisfiesContext(old(l.Exact[def.Signature])[j].Def.Context, def.Context) && !satisfiesContext(def.Context, old(l.Exact[def.Signature])[j].Def.Context)

//@ func Index.RegisterUpdate(l; t, def)
//@   props C06 C13
//@   requires@C13 l != nil
//@   assigns l.Update
//@   ensures err == nil && len(l.Update) == len(old(l.Update)) + 1 && l.Update[len(old(l.Update))] == t
//@   ensures forall j int :: 0 <= j && j < len(old(l.Update)) ==> l.Update[j] == old(l.Update)[j]
//@   ensures result0.update && result0.idx == len(old(l.Update))
