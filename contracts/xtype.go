//go:build verif

package xtype

// Contracts for package xtype (comment-only; checked by /verif/engine).

//@ pred b2i(b bool) int = ite(b, 1, 0)

//@ pred ShapeCount(t *Type) int = b2i(t.Pointer) + b2i(t.Basic) + b2i(t.Map) + b2i(t.List) + b2i(t.Struct) + b2i(t.Interface) + b2i(t.Signature) + b2i(t.Chan)

// Object invariant of *xtype.Type: established by TypeOf/applyTo (the only writers
// of the shape fields), assumed wherever a *Type is dereferenced.
//@ typeinv Type(t) = t.T != nil
//@     && ShapeCount(t) <= 1
//@     && (t.Pointer ==> t.PointerInner != nil)
//@     && (t.Basic ==> t.BasicType != nil)
//@     && (t.Named ==> t.NamedType != nil)
//@     && (t.Struct ==> t.StructType != nil)
//@     && (t.List ==> t.ListInner != nil)
//@     && (t.Map ==> t.MapKey != nil && t.MapValue != nil)
//@     && (t.ListFixed ==> t.List)
//@     && (t.Func ==> t.FuncType != nil && t.Signature)

//@ func Accessible
//@   props C01 C03
//@   pure
//@   requires obj != nil
//@   ensures result == (obj.Exported() || obj.Pkg() == nil || obj.Pkg().Path() == outputPackagePath)

//@ func Type.Enum
//@   props C08
//@   requires t != nil && cfg != nil
//@   assigns t.enum
//@   ensures result != nil
//@   ensures !t.Named ==> !result.OK
//@   ensures t.Named ==> t.enum == result

//@ func loadEnum
//@   props C08
//@   requires cfg != nil && t != nil
//@   assigns nothing
//@   ensures result != nil
