//go:build verif

package xtype

// Contracts for package xtype (comment-only; checked by /verif/engine).

//@ typeinv Type(t) = t.T != nil
//@     && (t.Pointer ==> t.PointerInner != nil)
//@     && (t.Basic ==> t.BasicType != nil)
//@     && (t.Named ==> t.NamedType != nil)
//@     && (t.Struct ==> t.StructType != nil)
//@     && (t.List ==> t.ListInner != nil)
//@     && (t.Map ==> t.MapKey != nil && t.MapValue != nil)
//@     && (t.ListFixed ==> t.List)
//@     && (t.Func ==> t.FuncType != nil)
