//go:build verif

package xtype

// Contracts for package xtype (comment-only; checked by /verif/engine).

//@ pred b2i(b bool) int = ite(b, 1, 0)

//@ pred ShapeCount(t *Type) int = b2i(t.Pointer) + b2i(t.Basic) + b2i(t.Map) + b2i(t.List) + b2i(t.Struct) + b2i(t.Interface) + b2i(t.Signature) + b2i(t.Chan)

// Object invariant of *xtype.Type: established by TypeOf/applyTo (the only writers
// of the shape fields), assumed wherever a *Type is dereferenced.
//@ pred TypeFieldsOK(t *Type) bool = ShapeCount(t) <= 1
//@     && (t.Pointer ==> t.PointerInner != nil)
//@     && (t.Basic ==> t.BasicType != nil)
//@     && (t.Named ==> t.NamedType != nil)
//@     && (t.Struct ==> t.StructType != nil)
//@     && (t.List ==> t.ListInner != nil)
//@     && (t.Map ==> t.MapKey != nil && t.MapValue != nil)
//@     && (t.ListFixed ==> t.List)
//@     && (t.Signature ==> t.SignatureType != nil)
//@     && (t.Func ==> t.FuncType != nil && t.Signature)
//@ typeinv Type(t) = t.T != nil && TypeFieldsOK(t) && (t.Named ==> dynIs[*types.Named](t.T))

// every field of *Type except the enum cache is fixed once TypeOf/applyTo/inStruct have built the object
//@ immutable Type String T Interface InterfaceType Struct StructType Named NamedType Pointer PointerType PointerInner List ListFixed ListInner Map MapType MapKey MapValue Basic BasicType Signature SignatureType Func FuncType Chan ChanType
//@ immutable JenID ParentPointer Code Variable

//@ pred GoValueType(t types.Type) bool = dynIs[*types.Pointer](t) || dynIs[*types.Basic](t) || dynIs[*types.Map](t)
//@     || dynIs[*types.Slice](t) || dynIs[*types.Array](t) || dynIs[*types.Named](t) || dynIs[*types.Struct](t)
//@     || dynIs[*types.Interface](t) || dynIs[*types.Signature](t) || dynIs[*types.Chan](t) || dynIs[*types.TypeParam](t)

//@ pred NoShape(t *Type) bool = ShapeCount(t) == 0 && !t.ListFixed && !t.Func

// Termination of the TypeOf/applyTo recursion (C13 "never hangs"): the measure is the depth of the go/types
// type. go/types guarantees (ASSUMED, listed in the evidence) that the element/key types of an unnamed composite
// type are strictly shallower; nothing of the kind holds for the underlying type of a NAMED type -- a named type
// may contain itself (type L []L) -- so the obligation at the Named case of applyTo cannot be discharged:
// known finding F13 (stack overflow for self-referential named slice/pointer/map types).
//@ ghost TypeDepth(t types.Type) int
//@ axiom forall t types.Type :: TypeDepth(t) >= 0 && TypeDepth(types.Unalias(t)) <= TypeDepth(t)
//@ axiom forall p *types.Pointer :: TypeDepth(p.Elem()) < TypeDepth(p)
//@ axiom forall s *types.Slice :: TypeDepth(s.Elem()) < TypeDepth(s)
//@ axiom forall a *types.Array :: TypeDepth(a.Elem()) < TypeDepth(a)
//@ axiom forall m *types.Map :: TypeDepth(m.Key()) < TypeDepth(m) && TypeDepth(m.Elem()) < TypeDepth(m)

// TypeOf / applyTo establish the object invariant of *Type (they and inStruct are the only writers of its shape fields)
//@ func TypeOf(t)
//@   props C03 C13
//@   variant 2*TypeDepth(types.Unalias(t)) + 1
//@   requires@C13 t != nil && (GoValueType(t) || dynIs[*types.Alias](t))
//@   assigns nothing
//@   ensures result != nil && isFresh(result)
//@   ensures result.T == types.Unalias(t) && result.T != nil
//@   ensures TypeFieldsOK(result)
//@   ensures !result.Func
//@   ensures dynIs[*types.Pointer](types.Unalias(t)) ==> result.Pointer && !result.Named
//@   ensures dynIs[*types.Basic](types.Unalias(t)) ==> result.Basic && !result.Named
//@   ensures dynIs[*types.Struct](types.Unalias(t)) ==> result.Struct && !result.Named
//@   ensures dynIs[*types.Slice](types.Unalias(t)) ==> result.List && !result.ListFixed && !result.Named
//@   ensures dynIs[*types.Array](types.Unalias(t)) ==> result.List && result.ListFixed && !result.Named
//@   ensures dynIs[*types.Map](types.Unalias(t)) ==> result.Map && !result.Named
//@   ensures dynIs[*types.Named](types.Unalias(t)) == result.Named

//@ func applyTo(rt, t)
//@   props C03 C13
//@   variant 2*TypeDepth(t)
//@   requires rt != nil && t != nil && GoValueType(t) && NoShape(rt)
//@   assigns rt.*
//@   ensures TypeFieldsOK(rt)
//@   ensures rt.T == old(rt.T) && rt.String == old(rt.String) && !rt.Func
//@   ensures old(rt.Named) ==> rt.Named && rt.NamedType != nil
//@   requires@C13 rt.Named ==> rt.NamedType != nil
//@   ensures dynIs[*types.Pointer](t) ==> rt.Pointer
//@   ensures dynIs[*types.Basic](t) ==> rt.Basic
//@   ensures dynIs[*types.Struct](t) ==> rt.Struct
//@   ensures dynIs[*types.Slice](t) ==> rt.List && !rt.ListFixed
//@   ensures dynIs[*types.Array](t) ==> rt.List && rt.ListFixed
//@   ensures dynIs[*types.Map](t) ==> rt.Map
//@   ensures rt.Named == (old(rt.Named) || dynIs[*types.Named](t))


//@ func Accessible(obj, outputPackagePath)
//@   props C01 C03 C13
//@   pure
//@   requires@C13 obj != nil
//@   ensures result == (obj.Exported() || obj.Pkg() == nil || obj.Pkg().Path() == outputPackagePath)

//@ func Type.Enum(t; cfg)
//@   props C08 C13
//@   requires@C13 t != nil && cfg != nil
//@   assigns t.enum
//@   ensures result != nil
//@   ensures !t.Named ==> !result.OK
//@   ensures t.Named ==> t.enum == result

// C08: whether a named type qualifies as an enum depends on the CURRENT configuration: disabled or
// excluded types never qualify
//@ func loadEnum(t, cfg)
//@   props C08 C13
//@   requires@C13 cfg != nil && t != nil
//@   assigns nothing
//@   ensures result != nil
//@   ensures !cfg.Enabled ==> !result.OK
//@   ensures t.Obj().Pkg() != nil && cfg.Excludes.Matches(t.Obj().Pkg().Path(), t.Obj().Name()) ==> !result.OK
//@   ensures t.Obj().Pkg() == nil ==> !result.OK

// ---- C09: key-collection loops; the collected slice is sorted before any other use ----
//@ func Enum.SortedMembers(e; )
//@   props C09
//@   maprange 1 unordered-result m

//@ func UsageChecker.Unused(u; )
//@   props C09
//@   assigns nothing
//@   maprange 1 unordered-result keys

//@ func UsageChecker.Used(u; key)
//@   props C09
//@   inline

// ---- small constructors used by every rule ----
//@ func VariableID(code)
//@   props C03
//@   ensures result != nil && isFresh(result) && result.Code == code && result.Variable && result.ParentPointer == nil
//@ func OtherID(code)
//@   props C03
//@   ensures result != nil && isFresh(result) && result.Code == code && !result.Variable && result.ParentPointer == nil
//@ func JenID.Pointer(j; t, namer)
//@   props C03 C13
//@   requires@C13 j != nil && j.Code != nil
//@   ensures result1 != nil && result1.Code != nil && isFresh(result1)
//@ func JenID.Deref(j; source)
//@   props C03 C13
//@   requires@C13 j != nil && j.Code != nil && source != nil && source.PointerInner != nil
//@   ensures result != nil && result.Code != nil && result.ParentPointer == j
//@ func Type.TypeAsJen(t; )
//@   props C01 C14
//@   pure
//@   ensures result == ite(t.Named, toCode(t.NamedType), toCode(t.T))
//@   ensures result != nil
//@ func Type.AsPointer(t; )
//@   props C03 C13
//@   requires@C13 t != nil
//@   assigns nothing
//@   ensures result != nil && isFresh(result) && result.Pointer && result.PointerInner != nil

//@ func Type.inStruct(t; source, field)
//@   props C03 C13
//@   requires@C13 t != nil && source != nil
//@   assigns t.Func, t.FuncType
//@   ensures result == t

// ---- type rendering (C01): every helper returns a statement ----
//@ func Type.AsPointerType(t; )
//@   props C03 C13
//@   requires@C13 t != nil
//@   ensures result != nil && result == types.NewPointer(t.T)
//@ func toCode(t)
//@   props C01 C18
//@   pure
//@   ensures result != nil
// C13/C01: an alias is looked through before the kind of the type is decided, at every level (toCode recurses into
// element, key, field and parameter types by itself; only TypeOf unaliases the top level). Without it an alias in a
// nested position reaches the final panic. (That the panic is unreachable for every other input is not proved: it
// needs "no type parameter, tuple or union at any depth", a fact about the callers' inputs.)
//@   ensures@C13,C01 reached("types.Unalias#1")
//@ func toCodeNamed(t)
//@   props C01 C18
//@   ensures result != nil
//@ func toCodeObj(obj)
//@   props C01 C18
//@   ensures result != nil
// Assumed vocabulary about jennifer (the library is not verified): Mentions(code, part) -- `part` is one
// of the pieces `code` was put together from. Add keeps what the receiver had and adds its argument.
//@ ghost Mentions(code jen.Code, part jen.Code) bool
//@ axiom forall x jen.Code :: Mentions(x, x)
//@ axiom forall s *jen.Statement, c jen.Code :: Mentions(s.Add(c), c)
//@ axiom forall s *jen.Statement, c jen.Code, x jen.Code :: Mentions(s, x) ==> Mentions(s.Add(c), x)
//@ axiom forall a jen.Code, b jen.Code, c jen.Code :: Mentions(a, b) && Mentions(b, c) ==> Mentions(a, c)

// an unnamed struct type is rendered with every declared field, in order: its type, its tag when it has
// one, and its name unless it is embedded
//@ func toCodeStruct(t)
//@   props C01 C18
//@   ensures result != nil
//@   loop 1 invariant len(fields) == i && i >= 0 && i <= t.NumFields()
//@   at@C01,C18 call append#1 assert Mentions(arg1, toCode(t.Field(i).Type()))
//@   at@C01 call append#1 assert t.Tag(i) != "" ==> Mentions(arg1, jen.Id("`" + t.Tag(i) + "`"))
//@   at@C01 call append#1 assert !t.Field(i).Embedded() ==> Mentions(arg1, jen.Id(t.Field(i).Name()))
//@   at@C01 call jen.Struct#1 assert len(arg0) == t.NumFields()
//@ func toCodeInterface(t)
//@   props C01 C18
//@   ensures result != nil
// a signature is rendered with every declared parameter and result type, in order; the last parameter
// of a variadic signature is rendered as `...T` (not as the slice type go/types reports for it)
//@ func toCodeSignature(t)
//@   props C01 C18
//@   ensures result != nil
//@   loop 1 invariant len(jenParams) == i && i >= 0 && i <= params.Len()
//@   loop 2 invariant len(jenResults) == i && i >= 0 && i <= results.Len()
//@   at@C01 call append#1 assert !(t.Variadic() && i == params.Len()-1) ==> Mentions(arg1, toCode(params.At(i).Type()))
//@   at@C01 call append#1 assert t.Variadic() && i == params.Len()-1 && dynIs[*types.Slice](params.At(i).Type()) ==> Mentions(arg1, jen.Op("...")) && Mentions(arg1, toCode(unboxed[*types.Slice](params.At(i).Type()).Elem()))
//@   at@C01 call append#2 assert Mentions(arg1, toCode(results.At(i).Type()))
//@   at@C01 call jen.Params#1 assert len(arg0) == t.Params().Len()
//@ func toCodeFunc(t)
//@   props C01 C18
//@   ensures result != nil
//@ func toChan(t)
//@   props C01 C18
//@   ensures result != nil
// C13: the panic for an unsupported kind is reachable for unsafe.Pointer (kind 18) whenever such a type has to be
// written out: known finding F1b (uintptr was repaired; unsafe.Pointer cannot be rendered without importing unsafe,
// which C18 forbids, and toCodeBasic has no way to report an error)
//@ func toCodeBasic(t)
//@   props C01 C18 C13
//@   ensures result != nil

//@ func SignatureOf(source, target)
//@   props C06 C13
//@   pure
//@   requires@C13 source != nil && target != nil
//@   ensures result == Signature{Source: source.String, Target: target.String}

// ---- C03/C05: field lookup: a *NoMatchError is returned exactly when no candidate was found;
// ---- several candidates on the winning tier are a different (ambiguity) error ----
//@ func ambiguousMatchError(name, ambNames)
//@   props C03 C05
//@   ensures result != nil && !dynIs[*NoMatchError](result)

//@ func FindField(name, ignoreCase, source, additionalFieldSources)
//@   props C03 C05
// every autoMap source is searched (a candidate in a later source makes the match ambiguous)
//@   loop 1 exhaustive every additional field source is searched
//@   loop 1 invariant idx > 0 ==> reached("source.Type.findAllFields#1")
//@   ensures err != nil ==> result == nil
//@   at return assert (result1 != nil && dynIs[*NoMatchError](result1)) == (len(matches) == 0)
//@   at return assert (result1 == nil) == (len(matches) == 1)
//@   at return assert len(exactMatches) > 0 ==> seqEq(matches, exactMatches)
//@   at return assert len(exactMatches) == 0 ==> seqEq(matches, ignoreCaseMatches)

//@ func FindExactField(source, name)
//@   props C03 C05 C13
//@   requires@C13 source != nil && source.Struct && source.StructType != nil && (source.Named ==> source.NamedType != nil)
//@   ensures (err == nil) == (result != nil)
//@   ensures@C13 err == nil ==> result.Type != nil

// ---- C05: exact-name lookup scans the fields and then (for named types) the methods ----
//@ func Type.findAllFields(t; path, name, ignoreCase)
//@   props C05 C03 C13
//@   requires@C13 t.Struct && t.StructType != nil && (t.Named ==> t.NamedType != nil)
//@   ensures result0 == nil ==> (forall y int :: 0 <= y && y < t.StructType.NumFields() ==> t.StructType.Field(y).Name() != name)
//@   ensures result0 == nil && t.Named ==> (forall y int :: 0 <= y && y < t.NamedType.NumMethods() ==> t.NamedType.Method(y).Name() != name)
//@   ensures result0 != nil ==> len(result0.Path) == len(path) + 1 && result0.Path[len(path)] == name
//@   ensures@C13 result0 != nil ==> result0.Type != nil
//@   loop 1 invariant same(t, old(t)) && same(path, old(path)) && name == old(name)
//@   loop 2 invariant same(t, old(t)) && same(path, old(path)) && name == old(name)
//@   loop 1 invariant 0 <= y && (forall z int :: 0 <= z && z < y ==> t.StructType.Field(z).Name() != name)
//@   loop 2 invariant 0 <= y && (forall z int :: 0 <= z && z < y ==> t.NamedType.Method(z).Name() != name)
//@   loop 2 invariant forall z int :: 0 <= z && z < t.StructType.NumFields() ==> t.StructType.Field(z).Name() != name

//@ func UsageFromMap(value)
//@   props C13
//@   assigns nothing
//@   ensures result != nil && isFresh(result)

// C01/C10: zero values of composite types are spelled with the full rendering of the type (type arguments included)
// C13 (F16, fixed dd06547): the zero literal exists for every type a *Type can hold (Type.T is unaliased and one of the
// value kinds); before the fix `unsafe.Pointer` reached the first panic (update:ignoreZeroValueField:basic and a field of
// type unsafe.Pointer on both sides). Excluded by the precondition: untyped nil / invalid basic types, type parameters,
// tuples, unions and aliases (never stored in Type.T of a struct field; TypeOf unaliases).
// ASSUMED about go/types (listed in the evidence): every basic type is a string, numeric or boolean type, or
// unsafe.Pointer, untyped nil or the invalid type.
//@ axiom forall b *types.Basic :: b.Info()&types.IsString != 0 || b.Info()&types.IsNumeric != 0 || b.Info()&types.IsBoolean != 0 || b.Kind() == types.UnsafePointer || b.Kind() == types.UntypedNil || b.Kind() == types.Invalid
//@ pred ZeroLeafOK(t types.Type) bool = (dynIs[*types.Basic](t) && unboxed[*types.Basic](t).Kind() != types.UntypedNil && unboxed[*types.Basic](t).Kind() != types.Invalid)
//@     || dynIs[*types.Struct](t) || dynIs[*types.Array](t) || dynIs[*types.Interface](t) || dynIs[*types.Signature](t)
//@     || dynIs[*types.Pointer](t) || dynIs[*types.Map](t) || dynIs[*types.Slice](t) || dynIs[*types.Chan](t)
// ASSUMED about go/types for packages that loaded without errors: the underlying type of a named type is a
// (typed, valid) basic type or an unnamed composite type, never a type parameter, tuple or union.
//@ axiom forall n *types.Named :: ZeroLeafOK(n.Underlying())
//@ pred ZeroValueOK(t types.Type) bool = ZeroLeafOK(t) || dynIs[*types.Named](t)
//@ func ZeroValue(t)
//@   props C01 C10 C13
//@   requires@C13 ZeroValueOK(t)
//@   variant ite(dynIs[*types.Named](t), 1, 0)
//@   ensures result != nil
//@   ensures dynIs[*types.Named](t) && dynIs[*types.Struct](unboxed[*types.Named](t).Underlying()) ==> result == jen.Parens(toCode(t).Block())
//@   ensures dynIs[*types.Struct](t) || dynIs[*types.Array](t) ==> result == toCode(t).Block()
//@   ensures dynIs[*types.Interface](t) || dynIs[*types.Signature](t) || dynIs[*types.Pointer](t) || dynIs[*types.Map](t) || dynIs[*types.Slice](t) || dynIs[*types.Chan](t) ==> result == jen.Nil()
