//go:build verif

package config

// Contracts for package config (comment-only; checked by /verif/engine).

//@ func IsEnumAction
//@   props C08 C12
//@   pure
//@   ensures result == strings.HasPrefix(s, "@")

//@ func validateEnumAction
//@   props C08 C12
//@   ensures (result == nil) == (s == "@panic" || s == "@error" || s == "@ignore")

//@ pred KnownCommonKey(cmd string) bool = cmd == "wrapErrors" || cmd == "wrapErrorsUsing" || cmd == "ignoreUnexported"
//@     || cmd == "update:ignoreZeroValueField" || cmd == "update:ignoreZeroValueField:basic" || cmd == "update:ignoreZeroValueField:struct"
//@     || cmd == "update:ignoreZeroValueField:nillable" || cmd == "default:update" || cmd == "matchIgnoreCase" || cmd == "ignoreMissing"
//@     || cmd == "skipCopySameType" || cmd == "useZeroValueOnPointerInconsistency" || cmd == "useUnderlyingTypeMethods" || cmd == "enum"
//@     || cmd == "arg:context:regex" || cmd == "enum:unknown"

//@ pred WrapConsistent(c *Common) bool = !(c.WrapErrors && c.WrapErrorsUsing != "")

// parseCommon: for each of the inheritable keys exactly which fields change and to what (frame + value);
// an unknown or empty key and a malformed value are errors; the wrapErrors/wrapErrorsUsing conflict is an error.
//@ func parseCommon
//@   props C12 C10 C11 C13
//@   requires@C13 c != nil
//@   assigns c.*
//@   ensures !KnownCommonKey(cmd) ==> err != nil && unchangedExcept(c) && !fieldSetting
//@   ensures old(WrapConsistent(c)) && err == nil ==> WrapConsistent(c)
//@   ensures cmd == "wrapErrors" ==> unchangedExcept(c, "WrapErrors") && fieldSetting == false
//@   ensures cmd == "wrapErrors" && old(c.WrapErrorsUsing) != "" ==> err != nil && unchangedExcept(c)
//@   ensures cmd == "wrapErrors" && old(c.WrapErrorsUsing) == "" ==> (err == nil) == parse.BoolOK(rest)
//@   ensures cmd == "wrapErrors" && err == nil ==> c.WrapErrors == parse.BoolValue(rest)
//@   ensures cmd == "ignoreUnexported" ==> unchangedExcept(c, "IgnoreUnexported") && fieldSetting == true
//@   ensures cmd == "ignoreUnexported" ==> (err == nil) == parse.BoolOK(rest)
//@   ensures cmd == "ignoreUnexported" && err == nil ==> c.IgnoreUnexported == parse.BoolValue(rest)
//@   ensures cmd == "update:ignoreZeroValueField" ==> unchangedExcept(c, "IgnoreBasicZeroValueField", "IgnoreStructZeroValueField", "IgnoreNillableZeroValueField") && fieldSetting == true
//@   ensures cmd == "update:ignoreZeroValueField" ==> (err == nil) == parse.BoolOK(rest)
//@   ensures cmd == "update:ignoreZeroValueField" && err == nil ==> c.IgnoreBasicZeroValueField == parse.BoolValue(rest) && c.IgnoreStructZeroValueField == parse.BoolValue(rest) && c.IgnoreNillableZeroValueField == parse.BoolValue(rest)
//@   ensures cmd == "update:ignoreZeroValueField:basic" ==> unchangedExcept(c, "IgnoreBasicZeroValueField") && fieldSetting == false
//@   ensures cmd == "update:ignoreZeroValueField:basic" ==> (err == nil) == parse.BoolOK(rest)
//@   ensures cmd == "update:ignoreZeroValueField:basic" && err == nil ==> c.IgnoreBasicZeroValueField == parse.BoolValue(rest)
//@   ensures cmd == "update:ignoreZeroValueField:struct" ==> unchangedExcept(c, "IgnoreStructZeroValueField") && fieldSetting == false
//@   ensures cmd == "update:ignoreZeroValueField:struct" ==> (err == nil) == parse.BoolOK(rest)
//@   ensures cmd == "update:ignoreZeroValueField:struct" && err == nil ==> c.IgnoreStructZeroValueField == parse.BoolValue(rest)
//@   ensures cmd == "update:ignoreZeroValueField:nillable" ==> unchangedExcept(c, "IgnoreNillableZeroValueField") && fieldSetting == false
//@   ensures cmd == "update:ignoreZeroValueField:nillable" ==> (err == nil) == parse.BoolOK(rest)
//@   ensures cmd == "update:ignoreZeroValueField:nillable" && err == nil ==> c.IgnoreNillableZeroValueField == parse.BoolValue(rest)
//@   ensures cmd == "default:update" ==> unchangedExcept(c, "DefaultUpdate") && fieldSetting == false
//@   ensures cmd == "default:update" ==> (err == nil) == parse.BoolOK(rest)
//@   ensures cmd == "default:update" && err == nil ==> c.DefaultUpdate == parse.BoolValue(rest)
//@   ensures cmd == "matchIgnoreCase" ==> unchangedExcept(c, "MatchIgnoreCase") && fieldSetting == true
//@   ensures cmd == "matchIgnoreCase" ==> (err == nil) == parse.BoolOK(rest)
//@   ensures cmd == "matchIgnoreCase" && err == nil ==> c.MatchIgnoreCase == parse.BoolValue(rest)
//@   ensures cmd == "ignoreMissing" ==> unchangedExcept(c, "IgnoreMissing") && fieldSetting == true
//@   ensures cmd == "ignoreMissing" ==> (err == nil) == parse.BoolOK(rest)
//@   ensures cmd == "ignoreMissing" && err == nil ==> c.IgnoreMissing == parse.BoolValue(rest)
//@   ensures cmd == "skipCopySameType" ==> unchangedExcept(c, "SkipCopySameType") && fieldSetting == false
//@   ensures cmd == "skipCopySameType" ==> (err == nil) == parse.BoolOK(rest)
//@   ensures cmd == "skipCopySameType" && err == nil ==> c.SkipCopySameType == parse.BoolValue(rest)
//@   ensures cmd == "useZeroValueOnPointerInconsistency" ==> unchangedExcept(c, "UseZeroValueOnPointerInconsistency") && fieldSetting == false
//@   ensures cmd == "useZeroValueOnPointerInconsistency" ==> (err == nil) == parse.BoolOK(rest)
//@   ensures cmd == "useZeroValueOnPointerInconsistency" && err == nil ==> c.UseZeroValueOnPointerInconsistency == parse.BoolValue(rest)
//@   ensures cmd == "useUnderlyingTypeMethods" ==> unchangedExcept(c, "UseUnderlyingTypeMethods") && fieldSetting == false
//@   ensures cmd == "useUnderlyingTypeMethods" ==> (err == nil) == parse.BoolOK(rest)
//@   ensures cmd == "useUnderlyingTypeMethods" && err == nil ==> c.UseUnderlyingTypeMethods == parse.BoolValue(rest)
//@   ensures cmd == "enum" ==> unchangedExcept(c, "Enum") && c.Enum.Unknown == old(c.Enum.Unknown) && same(c.Enum.Excludes, old(c.Enum.Excludes)) && !fieldSetting
//@   ensures cmd == "enum" ==> (err == nil) == parse.BoolOK(rest)
//@   ensures cmd == "enum" && err == nil ==> c.Enum.Enabled == parse.BoolValue(rest)
//@   ensures cmd == "wrapErrorsUsing" ==> unchangedExcept(c, "WrapErrorsUsing") && !fieldSetting
//@   ensures cmd == "wrapErrorsUsing" && old(c.WrapErrors) ==> err != nil && unchangedExcept(c)
//@   ensures cmd == "wrapErrorsUsing" && !old(c.WrapErrors) ==> (err == nil) == parse.StringOK(rest)
//@   ensures cmd == "wrapErrorsUsing" && err == nil ==> c.WrapErrorsUsing == parse.StringValue(rest)
//@   ensures cmd == "enum:unknown" ==> unchangedExcept(c, "Enum") && c.Enum.Enabled == old(c.Enum.Enabled) && same(c.Enum.Excludes, old(c.Enum.Excludes)) && !fieldSetting
//@   ensures cmd == "enum:unknown" && err == nil ==> parse.StringOK(rest) && c.Enum.Unknown == parse.StringValue(rest)
//@   ensures cmd == "enum:unknown" && err == nil && strings.HasPrefix(c.Enum.Unknown, "@") ==> c.Enum.Unknown == "@panic" || c.Enum.Unknown == "@error" || c.Enum.Unknown == "@ignore"
//@   ensures cmd == "enum:unknown" && !parse.StringOK(rest) ==> err != nil
//@   ensures cmd == "arg:context:regex" ==> unchangedExcept(c, "ArgContextRegex") && !fieldSetting
//@   ensures cmd == "arg:context:regex" && !parse.StringOK(rest) ==> err != nil

// ---- C09 ----
//@ func parseMethods
//@   props C09
//@   maprange 2 unordered-result names

//@ func getPackages
//@   props C09
//@   maprange 3 unordered-result pkgs

// registerMethodLines only inserts package paths that are a function of its arguments (it never reads or
// deletes from lookup). Stated with a ghost set; ASSUMED (trusted), listed in the evidence.
//@ ghost MethodLinePkgs(sourcePackage string, lines RawLines) map[string]bool
//@ func registerMethodLines
//@   props C09
//@   trusted
//@   requires@C13 lookup != nil
//@   assigns map(lookup)
//@   ensures forall k string :: has(lookup, k) == (old(has(lookup, k)) || has(MethodLinePkgs(sourcePackage, lines), k))

//@ func ConverterConfig.PackageID
//@   props C15 C13
//@   pure
//@   requires@C13 conf != nil
//@   ensures result == ite(conf.OutputPackageName == "", conf.OutputPackagePath, conf.OutputPackagePath + ":" + conf.OutputPackageName)

//@ func parseMethodMap
//@   props C13
