//go:build verif

package config

// Contracts for package config (comment-only; checked by /verif/engine).

//@ func IsEnumAction(s)
//@   props C08 C12
//@   pure
//@   ensures result == strings.HasPrefix(s, "@")

//@ func validateEnumAction(s)
//@   props C08 C12
//@   ensures (result == nil) == (s == "@panic" || s == "@error" || s == "@ignore")

//@ pred KnownCommonKey(cmd string) bool = cmd == "wrapErrors" || cmd == "wrapErrorsUsing" || cmd == "ignoreUnexported"
//@     || cmd == "update:ignoreZeroValueField" || cmd == "update:ignoreZeroValueField:basic" || cmd == "update:ignoreZeroValueField:struct"
//@     || cmd == "update:ignoreZeroValueField:nillable" || cmd == "default:update" || cmd == "matchIgnoreCase" || cmd == "ignoreMissing"
//@     || cmd == "skipCopySameType" || cmd == "useZeroValueOnPointerInconsistency" || cmd == "useUnderlyingTypeMethods" || cmd == "enum"
//@     || cmd == "arg:context:regex" || cmd == "enum:unknown"

//@ pred WrapConsistent(c *Common) bool = !(c.WrapErrors && c.WrapErrorsUsing != "")

// parseCommon: for each of the inheritable keys exactly which fields change and to what (frame + value);
// an unknown or empty key and a malformed value are errors; the wrapErrors/wrapErrorsUsing conflict is an error.
//@ func parseCommon(c, cmd, rest)
//@   props C12 C10 C11 C13
//@   requires@C13 c != nil
//@   assigns c.*
//@   ensures !KnownCommonKey(cmd) ==> err != nil && unchangedExcept(c) && !fieldSetting
//@   ensures old(WrapConsistent(c)) && err == nil ==> WrapConsistent(c)
//@   ensures cmd == "wrapErrors" ==> unchangedExcept(c, "WrapErrors") && fieldSetting == false
//@   ensures cmd == "wrapErrors" && old(c.WrapErrorsUsing) != "" ==> err != nil && unchangedExcept(c)
//@   ensures cmd == "wrapErrors" && old(c.WrapErrorsUsing) == "" ==> (err == nil) == parse.BoolOK(rest)
//@   ensures cmd == "wrapErrors" && err == nil ==> c.WrapErrors == parse.BoolValue(rest)
//@   ensures cmd == "ignoreUnexported" ==> unchangedExcept(c, "IgnoreUnexported") && fieldSetting == true
//@   ensures cmd == "ignoreUnexported" ==> (err == nil) == parse.BoolOK(rest)
//@   ensures cmd == "ignoreUnexported" && err == nil ==> c.IgnoreUnexported == parse.BoolValue(rest)
//@   ensures cmd == "update:ignoreZeroValueField" ==> unchangedExcept(c, "IgnoreBasicZeroValueField", "IgnoreStructZeroValueField", "IgnoreNillableZeroValueField") && fieldSetting == true
//@   ensures cmd == "update:ignoreZeroValueField" ==> (err == nil) == parse.BoolOK(rest)
//@   ensures cmd == "update:ignoreZeroValueField" && err == nil ==> c.IgnoreBasicZeroValueField == parse.BoolValue(rest) && c.IgnoreStructZeroValueField == parse.BoolValue(rest) && c.IgnoreNillableZeroValueField == parse.BoolValue(rest)
//@   ensures cmd == "update:ignoreZeroValueField:basic" ==> unchangedExcept(c, "IgnoreBasicZeroValueField") && fieldSetting == false
//@   ensures cmd == "update:ignoreZeroValueField:basic" ==> (err == nil) == parse.BoolOK(rest)
//@   ensures cmd == "update:ignoreZeroValueField:basic" && err == nil ==> c.IgnoreBasicZeroValueField == parse.BoolValue(rest)
//@   ensures cmd == "update:ignoreZeroValueField:struct" ==> unchangedExcept(c, "IgnoreStructZeroValueField") && fieldSetting == false
//@   ensures cmd == "update:ignoreZeroValueField:struct" ==> (err == nil) == parse.BoolOK(rest)
//@   ensures cmd == "update:ignoreZeroValueField:struct" && err == nil ==> c.IgnoreStructZeroValueField == parse.BoolValue(rest)
//@   ensures cmd == "update:ignoreZeroValueField:nillable" ==> unchangedExcept(c, "IgnoreNillableZeroValueField") && fieldSetting == false
//@   ensures cmd == "update:ignoreZeroValueField:nillable" ==> (err == nil) == parse.BoolOK(rest)
//@   ensures cmd == "update:ignoreZeroValueField:nillable" && err == nil ==> c.IgnoreNillableZeroValueField == parse.BoolValue(rest)
//@   ensures cmd == "default:update" ==> unchangedExcept(c, "DefaultUpdate") && fieldSetting == false
//@   ensures cmd == "default:update" ==> (err == nil) == parse.BoolOK(rest)
//@   ensures cmd == "default:update" && err == nil ==> c.DefaultUpdate == parse.BoolValue(rest)
//@   ensures cmd == "matchIgnoreCase" ==> unchangedExcept(c, "MatchIgnoreCase") && fieldSetting == true
//@   ensures cmd == "matchIgnoreCase" ==> (err == nil) == parse.BoolOK(rest)
//@   ensures cmd == "matchIgnoreCase" && err == nil ==> c.MatchIgnoreCase == parse.BoolValue(rest)
//@   ensures cmd == "ignoreMissing" ==> unchangedExcept(c, "IgnoreMissing") && fieldSetting == true
//@   ensures cmd == "ignoreMissing" ==> (err == nil) == parse.BoolOK(rest)
//@   ensures cmd == "ignoreMissing" && err == nil ==> c.IgnoreMissing == parse.BoolValue(rest)
//@   ensures cmd == "skipCopySameType" ==> unchangedExcept(c, "SkipCopySameType") && fieldSetting == false
//@   ensures cmd == "skipCopySameType" ==> (err == nil) == parse.BoolOK(rest)
//@   ensures cmd == "skipCopySameType" && err == nil ==> c.SkipCopySameType == parse.BoolValue(rest)
//@   ensures cmd == "useZeroValueOnPointerInconsistency" ==> unchangedExcept(c, "UseZeroValueOnPointerInconsistency") && fieldSetting == false
//@   ensures cmd == "useZeroValueOnPointerInconsistency" ==> (err == nil) == parse.BoolOK(rest)
//@   ensures cmd == "useZeroValueOnPointerInconsistency" && err == nil ==> c.UseZeroValueOnPointerInconsistency == parse.BoolValue(rest)
//@   ensures cmd == "useUnderlyingTypeMethods" ==> unchangedExcept(c, "UseUnderlyingTypeMethods") && fieldSetting == false
//@   ensures cmd == "useUnderlyingTypeMethods" ==> (err == nil) == parse.BoolOK(rest)
//@   ensures cmd == "useUnderlyingTypeMethods" && err == nil ==> c.UseUnderlyingTypeMethods == parse.BoolValue(rest)
//@   ensures cmd == "enum" ==> unchangedExcept(c, "Enum") && c.Enum.Unknown == old(c.Enum.Unknown) && same(c.Enum.Excludes, old(c.Enum.Excludes)) && !fieldSetting
//@   ensures cmd == "enum" ==> (err == nil) == parse.BoolOK(rest)
//@   ensures cmd == "enum" && err == nil ==> c.Enum.Enabled == parse.BoolValue(rest)
//@   ensures cmd == "wrapErrorsUsing" ==> unchangedExcept(c, "WrapErrorsUsing") && !fieldSetting
//@   ensures cmd == "wrapErrorsUsing" && old(c.WrapErrors) ==> err != nil && unchangedExcept(c)
//@   ensures cmd == "wrapErrorsUsing" && !old(c.WrapErrors) ==> (err == nil) == parse.StringOK(rest)
//@   ensures cmd == "wrapErrorsUsing" && err == nil ==> c.WrapErrorsUsing == parse.StringValue(rest)
//@   ensures cmd == "enum:unknown" ==> unchangedExcept(c, "Enum") && c.Enum.Enabled == old(c.Enum.Enabled) && same(c.Enum.Excludes, old(c.Enum.Excludes)) && !fieldSetting
//@   ensures cmd == "enum:unknown" && err == nil ==> parse.StringOK(rest) && c.Enum.Unknown == parse.StringValue(rest)
//@   ensures cmd == "enum:unknown" && err == nil && strings.HasPrefix(c.Enum.Unknown, "@") ==> c.Enum.Unknown == "@panic" || c.Enum.Unknown == "@error" || c.Enum.Unknown == "@ignore"
//@   ensures cmd == "enum:unknown" && !parse.StringOK(rest) ==> err != nil
//@   ensures cmd == "arg:context:regex" ==> unchangedExcept(c, "ArgContextRegex") && !fieldSetting
//@   ensures cmd == "arg:context:regex" && !parse.StringOK(rest) ==> err != nil

// ---- C09 ----
//@ func parseMethods(ctx, rawConverter, c)
//@   props C09
//@   maprange 2 unordered-result names

//@ func getPackages(raw)
//@   props C09 C15
//@   maprange 5 unordered-result pkgs
// C15: for EVERY converter the packages named by its own lines and by the global lines are loaded (the existing
// package at the output location decides the package clause), the default ./generated location included
//@   loop@C15,C01,C12 1 invariant idx > 0 ==> reached("registerConverterLines#1") && reached("registerConverterLines#2")
// (inside registerConverterLines, which is executed in place) the package of an output:file target is obtained from
// resolvePackage -- the same function that later decides where the file goes. The clause only pins that this step exists
// (it names none of the helper's variables on purpose: a clause that did was reported for a mere renaming, config-R4)
//@   at@C15,C01 call resolvePackage#1 assert true
//@   at@C15 call registerConverterLines#1 assert arg1 == raw.WorkDir && arg2 == c.FileName && arg3 == c.PackagePath && same(arg4, c.Converter)
//@   at@C15 call registerConverterLines#2 assert arg1 == raw.WorkDir && arg2 == c.FileName && arg3 == c.PackagePath && same(arg4, raw.Global)

// registerMethodLines only inserts package paths that are a function of its arguments (it never reads or
// deletes from lookup). Stated with a ghost set; ASSUMED (trusted), listed in the evidence.
//@ ghost MethodLinePkgs(sourcePackage string, lines RawLines) map[string]bool
//@ func registerMethodLines(lookup, sourcePackage, lines)
//@   props C09
//@   trusted
//@   requires@C13 lookup != nil
//@   assigns map(lookup)
//@   ensures forall k string :: has(lookup, k) == (old(has(lookup, k)) || has(MethodLinePkgs(sourcePackage, lines), k))

//@ func ConverterConfig.PackageID(conf; )
//@   props C15 C13
//@   pure
//@   requires@C13 conf != nil
//@   ensures result == ite(conf.OutputPackageName == "", conf.OutputPackagePath, conf.OutputPackagePath + ":" + conf.OutputPackageName)

//@ func parseMethodMap(remaining)
//@   props C13

// ---- C15 / C12: converter-level settings ----
// output:package [PATH][:NAME] sets both parts (a line without :NAME clears an earlier name so that it is
// inferred again); output:file is the parsed path; every other key leaves the output location alone;
// a key that is neither a converter key nor an inheritable key is an error; inheritable keys go to parseCommon
// with this converter's own Common.
//@ pred ConverterKey(cmd string) bool = cmd == "converter" || cmd == "variables" || cmd == "name" || cmd == "output:raw" || cmd == "output:file"
//@     || cmd == "output:format" || cmd == "output:package" || cmd == "struct:comment" || cmd == "enum:exclude" || cmd == "extend"
//@ func parseConverterLine(ctx, c, value)
//@   props C15 C12 C14
//@   propagates
//@   at@C15 return assert cmd == parse.CmdName(value) && rest == parse.CmdRest(value)
//@   at@C15,C18,C01,C12 return assert cmd == "output:package" && err == nil && !strings.Contains(parse.StringValue(rest), ":") ==> c.OutputPackagePath == parse.StringValue(rest) && c.OutputPackageName == ""
//@   at@C15,C18,C01 return assert cmd == "output:package" && err == nil && strings.Contains(parse.StringValue(rest), ":") ==> c.OutputPackagePath + ":" + c.OutputPackageName == parse.StringValue(rest) && !strings.Contains(c.OutputPackagePath, ":")
//@   at@C15 return assert cmd == "output:package" ==> (err == nil) == parse.StringOK(rest)
//@   at@C15 return assert cmd != "output:package" ==> c.OutputPackagePath == old(c.OutputPackagePath) && c.OutputPackageName == old(c.OutputPackageName)
//@   at@C15 return assert cmd != "output:file" ==> c.OutputFile == old(c.OutputFile)
//@   at@C15 return assert cmd == "output:file" && err == nil && !strings.HasPrefix(parse.StringValue(rest), "@cwd/") ==> c.OutputFile == parse.StringValue(rest)
//@   at@C12 return assert !ConverterKey(cmd) && !KnownCommonKey(cmd) ==> err != nil
// output:format needs a value, one of the three formats
//@   at@C12 call parse.Enum#1 assert !arg0 && arg1 == rest
//@   at@C12 return assert cmd == "output:format" && err == nil ==> c.OutputFormat == FormatFunction || c.OutputFormat == FormatStruct || c.OutputFormat == FormatVariable
//@   at@C12 return assert cmd == "name" && old(c.OutputFormat) != FormatStruct ==> err != nil
//@   at@C12 return assert cmd == "struct:comment" && old(c.OutputFormat) != FormatStruct ==> err != nil
//@   at@C12 call parseCommon#1 assert arg1 == cmd && arg2 == rest && !ConverterKey(cmd)
//@   at@C14 call ctx.Loader.GetMatching#1 assert arg2 != nil && arg2.Params == method.ParamsRequired && !arg2.AllowTypeParams && arg2.ContextMatch == c.ArgContextRegex
//@           && arg2.OutputPackagePath == c.OutputPackagePath && arg0 == c.Package && arg1 == name
//@   loop 1 invariant c.OutputFile == old(c.OutputFile) && c.OutputPackagePath == old(c.OutputPackagePath) && c.OutputPackageName == old(c.OutputPackageName)

//@ func Converter.requireStruct(c; )
//@   props C12
//@   pure
//@   ensures (result == nil) == (c.OutputFormat == FormatStruct)

//@ func Converter.typeForMethod(c; )
//@   pure

// ---- C12: the order in which the levels are applied: defaults, then the global (-g) lines, then the
// ---- converter's own lines (parseConverter); a method starts from a copy of its converter's Common and
// ---- applies its own lines in order (parseMethod). A method line never changes the converter. ----
//@ func initConverter(loader, rawConverter)
//@   props C12 C15
//@   propagates
//@   ensures@C12 err == nil ==> same(result0.Common, DefaultCommon)
//@   ensures@C15 err == nil && rawConverter.InterfaceName != "" ==> result0.OutputFile == "./generated/generated.go" && result0.OutputPackagePath == "" && result0.OutputPackageName == ""
//@   ensures@C15 err == nil && rawConverter.InterfaceName == "" ==> result0.OutputFile == defaultOutputFile(rawConverter.FileName) && result0.OutputPackagePath == rawConverter.PackagePath && result0.OutputPackageName == rawConverter.PackageName

//@ func defaultOutputFile(name)
//@   props C15
//@   pure
//@   ensures result == strings.TrimSuffix(filepath.Base(name), filepath.Ext(filepath.Base(name))) + ".gen" + filepath.Ext(filepath.Base(name))

//@ func parseConverter(ctx, rawConverter, global)
//@   props C12 C15
//@   propagates
//@   at@C12 call parseConverterLines#1 assert arg1 == c && arg2 == "global" && same(arg3, global)
//@   at@C12 call parseConverterLines#2 assert arg1 == c && same(arg3, rawConverter.Converter)
//@   at@C15 call resolveOutputPackage#1 assert arg1 == c
//@   at@C12 call parseMethods#1 assert arg2 == c

//@ func parseConverterLines(ctx, c, source, raw)
//@   props C12
//@   propagates
//@   at@C12 call parseConverterLine#1 assert arg1 == c && arg2 == raw.Lines[idx]

// an explicit output:package path / name is never overridden by the inferred one
//@ func resolveOutputPackage(ctx, c)
//@   props C15
//@   ensures old(c.OutputPackagePath) != "" ==> c.OutputPackagePath == old(c.OutputPackagePath)
//@   ensures old(c.OutputPackageName) != "" ==> c.OutputPackageName == old(c.OutputPackageName)
//@   ensures c.OutputFile == old(c.OutputFile)

//@ pred MethodKey(cmd string) bool = cmd == "map" || cmd == "ignore" || cmd == "update" || cmd == "context" || cmd == "enum:map"
//@     || cmd == "enum:transform" || cmd == "autoMap" || cmd == "default"

//@ func parseMethod(ctx, c, obj, rawMethod)
//@   props C12 C14
//@   at@C12 call parseMethodLine#1 assert arg1 == c && arg2 == m && arg3 == rawMethod.Lines[idx]
//@   at@C14,C12 call method.Parse#1 assert arg0 == obj && arg1.UpdateParam == m.updateParam && arg1.ContextMatch == m.ArgContextRegex && same(arg2, m.localOpts)
//@           && arg1.Params == method.ParamsRequired && !arg1.AllowTypeParams && arg1.Converter == nil && arg1.OutputPackagePath == c.OutputPackagePath
//@   loop@C12 1 invariant idx == 0 ==> same(m.Common, old(c.Common))
//@   loop@C12 1 invariant same(c.Common, old(c.Common))
//@   ensures@C12 len(rawMethod.Lines) == 0 ==> same(result0.Common, old(c.Common))
//@   ensures@C12 same(c.Common, old(c.Common))

//@ func parseMethodLine(ctx, c, m, value)
//@   props C12 C14 C08 C10 C05 C06
//@   propagates
// C08: every enum:map line is recorded (identical names included: it pins the member against transformers)
//@   at@C08 return assert cmd == "enum:map" && err == nil ==> len(strings.Fields(rest)) == 2 && has(m.EnumMapping.Map, strings.Fields(rest)[0]) && m.EnumMapping.Map[strings.Fields(rest)[0]] == strings.Fields(rest)[1]
// C05: every field-level setting line (map, ignore, autoMap and the field-level inheritable keys) is recorded in
// RawFieldSettings -- that list is what the overlap and the placement checks look at
//@   at@C05,C03,C12 return assert (cmd == "map" || cmd == "ignore" || cmd == "autoMap" || cmd == "ignoreUnexported" || cmd == "matchIgnoreCase" || cmd == "ignoreMissing" || cmd == "update:ignoreZeroValueField") && err == nil
//@           ==> len(m.RawFieldSettings) == old(len(m.RawFieldSettings)) + 1 && m.RawFieldSettings[len(m.RawFieldSettings)-1] == value
// C05/C10: a mapping line never replaces the entry of a field (an earlier `ignore` of the same field stays in force)
//@   at@C10,C05 return assert forall k string :: old(has(m.Fields, k)) ==> has(m.Fields, k) && m.Fields[k] == old(m.Fields[k])
//@   at@C12 return assert !MethodKey(cmd) && !KnownCommonKey(cmd) ==> err != nil
//@   at@C12 call parseCommon#1 assert arg1 == cmd && arg2 == rest && !MethodKey(cmd)
//@   at@C12 return assert same(c.Common, old(c.Common))
//@   at@C12 return assert MethodKey(cmd) ==> same(m.Common, old(m.Common))
//@   at@C14 return assert cmd == "context" && err == nil ==> has(m.localOpts.Context, parse.StringValue(rest))
// per-use parse options of map|FUNC and default FUNC: optional source, generics allowed, the METHOD's context regex
//@   at@C14,C06,C12,C11 call ctx.Loader.GetOne#* assert arg2 != nil && arg2.Params == method.ParamsOptional && arg2.AllowTypeParams && arg2.ContextMatch == m.ArgContextRegex
//@           && arg2.OutputPackagePath == c.OutputPackagePath && arg0 == c.Package
// the converter type that may appear as a parameter of the custom function is the one of THIS output format (none for
// output:format function/variables: there is no receiver to pass)
//@   at@C14,C06,C12 call ctx.Loader.GetOne#* assert arg2.Converter == c.typeForMethod()
//@   at@C14 return assert cmd == "update" && err == nil ==> m.updateParam == parse.StringValue(rest)
//@   at@C14 return assert cmd != "update" ==> m.updateParam == old(m.updateParam)
//@   at@C14 return assert cmd != "context" ==> forall k string :: has(m.localOpts.Context, k) == old(has(m.localOpts.Context, k))
//@   loop@C14 1 invariant forall k string :: has(m.localOpts.Context, k) == old(has(m.localOpts.Context, k))
//@   loop@C10,C05 1 invariant forall k string :: old(has(m.Fields, k)) ==> has(m.Fields, k) && m.Fields[k] == old(m.Fields[k])

//@ func formatLineError(lines, t, value, err)
//@   props C12
//@   ensures result != nil

//@ func Method.Field(m; targetName)
//@   props C05 C12 C10
//@   assigns map(m.Fields)
//@   ensures has(m.Fields, targetName) && result == m.Fields[targetName]
//@   ensures forall k string :: old(has(m.Fields, k)) ==> has(m.Fields, k) && m.Fields[k] == old(m.Fields[k])

// C15: the package of an output file is the directory of that file, taken relative to the declaring file's
// package path (an absolute output path is first made relative to the directory of the declaring file)
//@ func resolvePackage(sourceFileName, sourcePackage, targetFile)
//@   props C15
//@   ensures !filepath.IsAbs(targetFile) ==> err == nil && result == filepath.Dir(filepath.Join(sourcePackage, targetFile))
//@   ensures filepath.IsAbs(targetFile) && err == nil ==> result == filepath.Dir(filepath.Join(sourcePackage, fst(filepath.Rel(filepath.Dir(sourceFileName), targetFile))))
