//go:build verif

package generator

// Contracts for package generator (comment-only; checked by /verif/engine).

//@ pred GenOK(g *generator) bool = g != nil && method.IndexWF(g.lookup) && method.IndexWF(g.extend) && g.conf != nil && g.namer != nil

//@ func typeMismatch
//@   props C03 C11
//@   requires source != nil && target != nil
//@   ensures result != nil
//@   ensures strings.Contains(result.Cause, "TypeMismatch: Cannot convert ")
//@   ensures source.Pointer && !target.Pointer ==> strings.Contains(result.Cause, "useZeroValueOnPointerInconsistency")

// order in which a rule may be reached: each rule only when no rule before it matched
//@ pred RuleOrderOK(rule builder.Builder, ctx *builder.MethodContext, s *xtype.Type, t *xtype.Type) bool =
//@        (dynIs[*builder.SkipCopy](rule) ==> builder.MatchesSkipCopy(ctx, s, t))
//@     && (dynIs[*builder.BasicTargetPointerRule](rule) ==> builder.MatchesBasicTargetPointer(s, t) && !builder.MatchesSkipCopy(ctx, s, t))
//@     && (dynIs[*builder.Pointer](rule) ==> builder.MatchesPointer(s, t) && !builder.MatchesSkipCopy(ctx, s, t) && !builder.MatchesBasicTargetPointer(s, t))
//@     && (dynIs[*builder.SourcePointer](rule) ==> builder.MatchesSourcePointer(ctx, s, t) && !builder.MatchesSkipCopy(ctx, s, t))
//@     && (dynIs[*builder.TargetPointer](rule) ==> builder.MatchesTargetPointer(s, t) && !builder.MatchesSkipCopy(ctx, s, t) && !builder.MatchesBasicTargetPointer(s, t))
//@     && (dynIs[*builder.Basic](rule) ==> builder.MatchesBasic(s, t) && !builder.MatchesSkipCopy(ctx, s, t))
//@     && (dynIs[*builder.Struct](rule) ==> builder.MatchesStruct(s, t) && !builder.MatchesSkipCopy(ctx, s, t))
//@     && (dynIs[*builder.List](rule) ==> builder.MatchesList(s, t) && !builder.MatchesSkipCopy(ctx, s, t))
//@     && (dynIs[*builder.Map](rule) ==> builder.MatchesMap(s, t) && !builder.MatchesSkipCopy(ctx, s, t))
//@     && (dynIs[*builder.UseUnderlyingTypeMethods](rule) ==> builder.MayMatchUnderlying(ctx, s, t))
//@     && (dynIs[*builder.Enum](rule) ==> builder.MayMatchEnum(ctx, s, t) && !builder.MatchesSkipCopy(ctx, s, t))

//@ func generator.buildNoLookup
//@   props C03 C11 C04
//@   requires GenOK(g) && builder.CtxOK(ctx) && source != nil && target != nil
//@   ensures old(builder.NoRule(ctx, source, target)) ==> err != nil
//@   ensures old(builder.NoRule(ctx, source, target) && source.Pointer && !target.Pointer && !(source.Struct && target.Struct))
//@           ==> strings.Contains(err.Cause, "useZeroValueOnPointerInconsistency")
//@   at call rule.Build#1 assert RuleOrderOK(rule, ctx, source, target)
//@   at call typeMismatch#1 assert !builder.AnyPureRule(ctx, source, target)

//@ func generator.assignNoLookup
//@   props C03 C11 C04
//@   requires GenOK(g) && builder.CtxOK(ctx) && source != nil && target != nil
//@   ensures old(builder.NoRule(ctx, source, target)) ==> err != nil
//@   at call rule.Assign#1 assert RuleOrderOK(rule, ctx, source, target)
//@   at call typeMismatch#1 assert !builder.AnyPureRule(ctx, source, target)

//@ func generator.getOverlappingStructDefinition
//@   props C05
//@   requires GenOK(g) && builder.CtxOK(ctx) && source != nil && target != nil
//@   assigns nothing
//@   ensures !(source.Struct && target.Struct) ==> result == nil

// ---- C09 ----
//@ func validateMethods
//@   props C09 C03
//@   maprange 1 unordered-result signatures

//@ func fileManager.renderFiles
//@   props C09 C15
//@   maprange 1 unordered-result names
