//go:build verif

package generator

// Contracts for package generator (comment-only; checked by /verif/engine).

// representation invariant of the generator: both indexes are well-formed, every registered generated method
// carries its configuration and definition
//@ pred GenVal(g generator) bool = method.IndexWF(g.lookup) && method.IndexWF(g.extend) && g.conf != nil && g.namer != nil
//@     && (forall s xtype.Signature, j int :: has(g.lookup.Exact, s) && 0 <= j && j < len(g.lookup.Exact[s]) ==>
//@            g.lookup.Exact[s][j].Item.Method != nil && g.lookup.Exact[s][j].Item.Method.Definition != nil)
//@     && (forall j int :: 0 <= j && j < len(g.lookup.Update) ==> g.lookup.Update[j] != nil && g.lookup.Update[j].Method != nil && g.lookup.Update[j].Method.Definition != nil)
//@ pred GenOK(g *generator) bool = g != nil && GenVal(*g)
// the current method context is registered in the lookup index, and so is every method on its origin path
//@ pred CtxLinked(g *generator, ctx *builder.MethodContext) bool = ctx != nil && method.ValidID(g.lookup, ctx.IndexID)
//@     && (forall j int :: 0 <= j && j < len(g.lookup.ByID(ctx.IndexID).OriginPath) ==> method.ValidID(g.lookup, g.lookup.ByID(ctx.IndexID).OriginPath[j]))

//@ reveal builder.GenInv(gen builder.Generator) = dynIs[*generator](gen) && GenOK(unboxed[*generator](gen))
//@ reveal builder.GenCtx(gen builder.Generator, ctx *builder.MethodContext) = dynIs[*generator](gen) && unboxed[*generator](gen) != nil && CtxLinked(unboxed[*generator](gen), ctx)

//@ func typeMismatch(source, target)
//@   props C03 C11 C13
//@   requires@C13 source != nil && target != nil
//@   ensures result != nil
//@   ensures strings.Contains(result.Cause, "TypeMismatch: Cannot convert ")
//@   ensures source.Pointer && !target.Pointer ==> strings.Contains(result.Cause, "useZeroValueOnPointerInconsistency")

// order in which a rule may be reached: each rule only when no rule before it matched
//@ pred RuleOrderOK(rule builder.Builder, ctx *builder.MethodContext, s *xtype.Type, t *xtype.Type) bool =
//@        (dynIs[*builder.SkipCopy](rule) ==> builder.MatchesSkipCopy(ctx, s, t))
//@     && (dynIs[*builder.BasicTargetPointerRule](rule) ==> builder.MatchesBasicTargetPointer(s, t) && !builder.MatchesSkipCopy(ctx, s, t))
//@     && (dynIs[*builder.Pointer](rule) ==> builder.MatchesPointer(s, t) && !builder.MatchesSkipCopy(ctx, s, t) && !builder.MatchesBasicTargetPointer(s, t))
//@     && (dynIs[*builder.SourcePointer](rule) ==> builder.MatchesSourcePointer(ctx, s, t) && !builder.MatchesSkipCopy(ctx, s, t))
//@     && (dynIs[*builder.TargetPointer](rule) ==> builder.MatchesTargetPointer(s, t) && !builder.MatchesSkipCopy(ctx, s, t) && !builder.MatchesBasicTargetPointer(s, t))
//@     && (dynIs[*builder.Basic](rule) ==> builder.MatchesBasic(s, t) && !builder.MatchesSkipCopy(ctx, s, t))
//@     && (dynIs[*builder.Struct](rule) ==> builder.MatchesStruct(s, t) && !builder.MatchesSkipCopy(ctx, s, t))
//@     && (dynIs[*builder.List](rule) ==> builder.MatchesList(s, t) && !builder.MatchesSkipCopy(ctx, s, t))
//@     && (dynIs[*builder.Map](rule) ==> builder.MatchesMap(s, t) && !builder.MatchesSkipCopy(ctx, s, t))
//@     && (dynIs[*builder.UseUnderlyingTypeMethods](rule) ==> builder.MayMatchUnderlying(ctx, s, t))
//@     && (dynIs[*builder.Enum](rule) ==> builder.MayMatchEnum(ctx, s, t) && !builder.MatchesSkipCopy(ctx, s, t))

//@ func generator.buildNoLookup(g; ctx, sourceID, source, target, errPath)
//@   props C03 C11 C04 C13
//@   propagates
//@   requires@C13 GenCall(g, ctx, sourceID, source, target)
//@   ensures@C13 builder.GenInv(g)
//@   ensures err == nil ==> result1 != nil && result1.Code != nil
//@   ensures old(builder.NoRule(ctx, source, target)) ==> err != nil
//@   ensures old(builder.NoRule(ctx, source, target) && source.Pointer && !target.Pointer && !(source.Struct && target.Struct))
//@           ==> strings.Contains(err.Cause, "useZeroValueOnPointerInconsistency")
//@   at call rule.Build#1 assert RuleOrderOK(rule, ctx, source, target)
// C05: before any rule is applied the pair is checked against field settings written on a pointer/value variant of it
// (they would be bypassed by converting the pair in place)
//@   ensures@C05 reached("g.getOverlappingStructDefinition#1")
//@   at@C05 call g.getOverlappingStructDefinition#1 assert arg0 == ctx && arg1 == source && arg2 == target
//@   at call typeMismatch#1 assert !builder.AnyPureRule(ctx, source, target)

// C06: a custom function on the underlying types is looked for BEFORE any automatic rule (skipCopySameType included)
//@ lemma C06_underlying_methods_first()
//@   props C06 C03
//@   ensures len(BuildSteps) == 11 && dynIs[*builder.UseUnderlyingTypeMethods](BuildSteps[0])
//@   ensures forall i int :: 1 <= i && i < len(BuildSteps) ==> !dynIs[*builder.UseUnderlyingTypeMethods](BuildSteps[i])

//@ func generator.assignNoLookup(g; ctx, assignTo, sourceID, source, target, errPath)
//@   props C03 C11 C04 C13
//@   propagates
//@   requires@C13 GenCall(g, ctx, sourceID, source, target) && builder.AssignOK(assignTo)
//@   ensures@C13 builder.GenInv(g)
//@   ensures old(builder.NoRule(ctx, source, target)) ==> err != nil
//@   at call rule.Assign#1 assert RuleOrderOK(rule, ctx, source, target)
//@   ensures@C05 reached("g.getOverlappingStructDefinition#1")
//@   at@C05 call g.getOverlappingStructDefinition#1 assert arg0 == ctx && arg1 == source && arg2 == target
//@   at call typeMismatch#1 assert !builder.AnyPureRule(ctx, source, target)

//@ func generator.getOverlappingStructDefinition(g; ctx, source, target)
//@   props C05 C13
//@   errdrop g.lookup.Get#* only asks whether a usable method exists: an unsatisfied context is reported where that method is actually used
//@   requires@C13 builder.GenInv(g) && builder.CtxOK(ctx) && source != nil && target != nil
//@   assigns nothing
//@   ensures !(source.Struct && target.Struct) ==> result == nil
// a method over the pointer variants of this struct pair that carries ANY field-level setting (map, ignore, autoMap,
// matchIgnoreCase, ignoreMissing, ...) makes generation fail: its settings would be bypassed
//@   loop@C05 1 invariant forall j int :: 0 <= j && j < idx && overlapping[j] != ctx.Signature ==> fst(g.lookup.Get(overlapping[j], ctx.AvailableContext)) == nil || len(fst(g.lookup.Get(overlapping[j], ctx.AvailableContext)).RawFieldSettings) == 0

// ---- C09 ----
// C05: field settings on a method whose target is neither a struct nor a pointer to a struct cannot take effect:
// generation fails (checked for every entry that is passed over)
//@ pred FieldSettingsOK(m *generatedMethod) bool = !(m.Explicit && len(m.RawFieldSettings) > 0) || m.Target.Struct || (m.Target.Pointer && m.Parameters.Target.PointerInner.Struct)
//@ func validateMethods(lookup)
//@   props C09 C03 C05
//@   loop@C05,C17,C03 3 invariant forall j int :: 0 <= j && j < idx ==> FieldSettingsOK(lookup.Exact[signature][j].Item)
//@   loop@C05,C03 2 invariant forall i int, j int :: 0 <= i && i < idx && 0 <= j && j < len(lookup.Exact[signatures[i]]) ==> FieldSettingsOK(lookup.Exact[signatures[i]][j].Item)
//@   maprange 1 unordered-result signatures
// the collected keys are pairwise distinct (map keys); the comparator must decide every such pair
//@   sortcall 1 total

//@ func fileManager.renderFiles(m; )
//@   props C09 C15
//@   maprange 1 unordered-result names

// ---- C07: wrapping mode selection ----
//@ func generator.wrap(g; ctx, errPath, errStmt)
//@   props C07 C13 C18 C12
//@   pure
//@   requires@C13 builder.CtxOK(ctx) && (forall j int :: 0 <= j && j < len(errPath) ==> builder.PathElem(errPath[j]))
//@   ensures ctx.Conf.WrapErrorsUsing != "" ==> result == errPath.WrapErrorsUsing(ctx.Conf.WrapErrorsUsing, errStmt)
//@   ensures ctx.Conf.WrapErrorsUsing == "" && ctx.Conf.WrapErrors ==> result == errPath.WrapErrors(errStmt)
//@   ensures ctx.Conf.WrapErrorsUsing == "" && !ctx.Conf.WrapErrors ==> result == errStmt

// ---- the generator side of the builder.Generator interface ----
// builder.GenInv / builder.GenCtx are the abstract forms of GenOK / CtxLinked (revealed above); every
// generator method that can be reached from a builder preserves them.
//@ pred GenCall(g *generator, ctx *builder.MethodContext, sourceID *xtype.JenID, source *xtype.Type, target *xtype.Type) bool =
//@     builder.GenInv(g) && builder.CallOK(ctx, sourceID, source, target)
//@ pred CtxLinkedVal(g generator, ctx *builder.MethodContext) bool = ctx != nil && method.ValidID(g.lookup, ctx.IndexID)
//@     && (forall j int :: 0 <= j && j < len(g.lookup.ByID(ctx.IndexID).OriginPath) ==> method.ValidID(g.lookup, g.lookup.ByID(ctx.IndexID).OriginPath[j]))

//@ func generator.Build(g; ctx, sourceID, source, target, errPath)
//@   props C03 C06 C13
//@   propagates
//@   requires@C13 GenCall(g, ctx, sourceID, source, target)
//@   ensures@C13 builder.GenInv(g)
//@   ensures err == nil ==> result1 != nil && result1.Code != nil
//@   at call g.shouldCreateSubMethod#1 assert !has(g.extend.Exact, xtype.SignatureOf(source, target)) && !has(g.lookup.Exact, xtype.SignatureOf(source, target))
//@   at call g.buildNoLookup#* assert !has(g.extend.Exact, xtype.SignatureOf(source, target)) && !has(g.lookup.Exact, xtype.SignatureOf(source, target))
//@   at call g.createSubMethod#* assert !has(g.extend.Exact, xtype.SignatureOf(source, target)) && !has(g.lookup.Exact, xtype.SignatureOf(source, target))

//@ func generator.Assign(g; ctx, assignTo, sourceID, source, target, errPath)
//@   props C03 C06 C13
//@   propagates
//@   requires@C13 GenCall(g, ctx, sourceID, source, target) && builder.AssignOK(assignTo)
//@   ensures@C13 builder.GenInv(g)
//@   at call g.shouldCreateSubMethod#1 assert !has(g.extend.Exact, xtype.SignatureOf(source, target)) && !has(g.lookup.Exact, xtype.SignatureOf(source, target))
//@   at call g.assignNoLookup#* assert !has(g.extend.Exact, xtype.SignatureOf(source, target)) && !has(g.lookup.Exact, xtype.SignatureOf(source, target))
//@   at call g.createSubMethod#* assert !has(g.extend.Exact, xtype.SignatureOf(source, target)) && !has(g.lookup.Exact, xtype.SignatureOf(source, target))

// extend is consulted before the declared/generated methods; a hit is used (or is an error), only
// "not registered at all" falls through to the automatic rules
//@ func generator.callExisting(g; ctx, sourceID, source, target, errPath)
//@   props C06 C03 C13
//@   propagates
//@   requires@C13 GenVal(g) && builder.CallOK(ctx, sourceID, source, target)
//@   ensures@C13 GenVal(g)
//@   ensures has(g.extend.Exact, xtype.SignatureOf(source, target)) || has(g.lookup.Exact, xtype.SignatureOf(source, target)) ==> result1 != nil || err != nil
//@   ensures err == nil && result1 == nil ==> result0 == nil
//@   ensures err == nil && result1 != nil ==> result1.Code != nil
//@   at call g.lookup.Get#1 assert !has(g.extend.Exact, signature)
// both indexes are asked with the context that is AVAILABLE at this point of the generation (the method's own
// context plus what generated sub methods inherit)
//@   at@C06 call g.extend.Get#1 assert arg0 == signature && same(arg1, ctx.AvailableContext)
//@   at@C06 call g.lookup.Get#1 assert arg0 == signature && same(arg1, ctx.AvailableContext)
// C01 (F10): a generated method that is called without having been created here remembers its caller
//@   at@C01 call g.CallMethod#2 assert len(genMethod.Callers) > 0 && genMethod.Callers[len(genMethod.Callers)-1] == ctx.IndexID

// C07: a fallible custom function is emitted as `name, err := call; if err != nil { <ReturnError statement> }`
//@ func generator.CallMethod(g; ctx, definition, sourceID, source, target, errPath)
//@   props C06 C07 C03
//@   propagates
//@   ensures err == nil ==> len(result0) == 0 || len(result0) == 2
//@   at@C07 call xtype.VariableID#1 assert ok && len(stmt) == 2
//@           && stmt[0] == jen.Code(jen.List(jen.Id(name), jen.Id("err")).Op(":=").Add(qual.Call(params...)))
//@           && stmt[1] == jen.Code(jen.If(jen.Id("err").Op("!=").Nil()).Block(ret))
//@   requires@C13 builder.GenInv(g) && builder.MethodOK(ctx) && ctx.Namer != nil && definition != nil && target != nil
//@   ensures@C13 builder.GenInv(g)
//@   ensures err == nil ==> result1 != nil && result1.Code != nil

// the emitted return statement: the target variable first (unless update), wrap(err) last; goverter refuses
// (ok == false) only when the current method does not return an error itself
//@ func generator.ReturnError(g; ctx, errPath, id)
//@   props C07 C01
// C01 (F10): when a method gains an error result its signature changes; every method recorded as calling it is
// marked dirty (generated again), not only the methods on the path it was created through
//@   loop@C01,C07 2 invariant forall j int :: 0 <= j && j < idx ==> g.lookup.ByID(check.Callers[j]).Dirty
//@   ensures !result1 ==> !old(ctx.Conf.ReturnError) && result0 == nil
//@   at call jen.Return#* assert arg0[len(arg0)-1] == jen.Code(g.wrap(ctx, errPath, id)) && len(arg0) == ite(current.UpdateTarget, 1, 2)
//@           && (!current.UpdateTarget ==> arg0[0] == jen.Code(ctx.TargetVar))
//@   requires@C13 builder.GenInv(g) && builder.MethodOK(ctx) && id != nil
//@   ensures@C13 builder.GenInv(g)
//@   ensures result1 ==> result0 != nil

// C13 (progress of the dirty fix-point): a method is only marked dirty for a type seen before if a sub
// method is then created for it
//@ pred PtrVariantOfCurrent(ctx *builder.MethodContext, source *xtype.Type, target *xtype.Type) bool =
//@     source.Struct && target.Struct && (ctx.Signature.Source == types.NewPointer(source.T).String() || ctx.Signature.Target == types.NewPointer(target.T).String())
//@ func generator.shouldCreateSubMethod(g; ctx, source, target)
//@   props C06 C12 C08
// whether the pair counts as an enum pair is decided with the settings of the method that is being generated
//@   at@C12,C18,C08 call source.Enum#1 assert arg0 != nil && arg0.Enabled == ctx.Conf.Enum.Enabled && arg0.Unknown == ctx.Conf.Enum.Unknown && same(arg0.Excludes, ctx.Conf.Enum.Excludes)
//@   at@C12,C18,C08 call target.Enum#1 assert arg0 != nil && arg0.Enabled == ctx.Conf.Enum.Enabled && arg0.Unknown == ctx.Conf.Enum.Unknown && same(arg0.Excludes, ctx.Conf.Enum.Excludes)
//@   ensures@C13 old(ctx.HasSeen(source)) ==> result
// C05/C12: field settings and flags of a method apply to its own target struct only -- a nested position whose source or
// target is a named non-basic type is converted in a method of its own (with the converter's settings), unless the
// current method is the pointer/value variant of that very struct pair or the pair is passed through (skipCopySameType)
//@   ensures@C05,C12,C03 !old(ctx.HasSeen(source)) && !PtrVariantOfCurrent(ctx, source, target) && !(ctx.Conf.SkipCopySameType && source.String == target.String)
//@           && ((source.Named && !source.Basic) || (target.Named && !target.Basic)) ==> result
// C03/C04/C12: with the METHOD's skipCopySameType in force an identical pair is passed through where it stands (no
// method of its own, which would run with the converter's settings and may have no rule for it)
//@   ensures@C03,C04,C12 !old(ctx.HasSeen(source)) && ctx.Conf.SkipCopySameType && source.String == target.String ==> !result
//@   ensures@C13 !old(ctx.HasSeen(source)) ==> g.lookup.ByID(ctx.IndexID).Dirty == old(g.lookup.ByID(ctx.IndexID).Dirty)
//@   requires@C13 builder.GenInv(g) && builder.MethodOK(ctx) && source != nil && target != nil
//@   ensures@C13 builder.GenInv(g)

// C12/C04: generated sub methods get the CONVERTER's settings, not those of the calling method
// C06: "is there a custom function or declared method for this pair" does not depend on the contexts the current method
// happens to have -- a match whose context is missing must surface as an error (Get), never as "no such function"
//@ func generator.hasMethod(g; ctx, source, target)
//@   props C06
//@   requires@C13 g != nil && g.extend != nil && g.lookup != nil && source != nil && target != nil
//@   ensures result == (has(g.extend.Exact, xtype.Signature{Source: source.String(), Target: target.String()}) || has(g.lookup.Exact, xtype.Signature{Source: source.String(), Target: target.String()}))
//@ func generator.createSubMethod(g; ctx, sourceID, source, target, errPAth)
//@   props C06 C03 C12 C04 C01
//@   propagates
//@   at@C12,C08,C11 call g.lookup.Register#1 assert same(genMethod.Method.Common, g.conf.Common) && genMethod.Definition.Name == name && genMethod.Definition.Generated
//@   at@C04 call g.lookup.Register#1 assert genMethod.Method.Common.SkipCopySameType == g.conf.Common.SkipCopySameType
// C18/C01: a generated helper lives in the OUTPUT package (references to it are qualified with that path, which the
// output file drops as its own)
//@   at@C18,C01 call g.lookup.Register#1 assert genMethod.Definition.Package == g.conf.OutputPackagePath
//@   requires@C13 GenCall(g, ctx, sourceID, source, target)
//@   requires !has(g.lookup.Exact, xtype.SignatureOf(source, target))
//@   ensures@C13 builder.GenInv(g)
//@   ensures err == nil ==> result1 != nil && result1.Code != nil

//@ func generator.buildMethod(g; genMethod, context)
//@   props C14 C06 C03
//@   propagates
// C14: the method is emitted with one parameter per declared argument, in the declared order (the update target
// stays where it was declared), each with the declared type
// (method.Parse assigns one of these five roles to every argument)
//@   requires forall j int :: 0 <= j && j < len(genMethod.RawArgs) ==> genMethod.RawArgs[j].Use == method.ArgUseContext || genMethod.RawArgs[j].Use == method.ArgUseSource
//@           || genMethod.RawArgs[j].Use == method.ArgUseTarget || genMethod.RawArgs[j].Use == method.ArgUseInterface || genMethod.RawArgs[j].Use == method.ArgUseMultiSource
//@   loop@C14 1 invariant len(args) == idx
//@   at@C14 call append#1 assert arg1 == jen.Code(jen.Id(name).Add(arg.Type.TypeAsJen())) && arg.Use == method.ArgUseContext
//@   at@C14 call append#2 assert arg1 == jen.Code(jen.Id(name).Add(arg.Type.TypeAsJen())) && arg.Use == method.ArgUseSource
//@   at@C14 call append#3 assert arg1 == jen.Code(jen.Id(name).Add(arg.Type.TypeAsJen())) && arg.Use == method.ArgUseTarget
//@   requires@C13 builder.GenInv(g) && genMethod != nil && genMethod.Method != nil && genMethod.Method.Definition != nil
//@   requires@C13 method.ValidID(g.lookup, genMethod.IndexID) && g.lookup.ByID(genMethod.IndexID) == genMethod
//@   requires@C13 forall j int :: 0 <= j && j < len(genMethod.OriginPath) ==> method.ValidID(g.lookup, genMethod.OriginPath[j])
//@   ensures@C13 builder.GenInv(g)

// how a method is referred to from generated code: a custom call expression as given; a generated method of a
// struct converter through the receiver; a generated function of a function-format converter by its bare name
// (it lives in the output package); everything else -- extend functions, and the user's own function variables
// of a goverter:variables block, which live in the package that DECLARES them -- qualified by its package
//@ func generator.qualMethod(g; m)
//@   props C01 C18 C13
//@   requires@C13 g != nil && g.conf != nil && m != nil
//@   assigns nothing
//@   ensures result != nil
//@   ensures@C01,C18 m.CustomCall == nil && g.conf.OutputFormat == config.FormatStruct && m.Generated ==> result == jen.Id(xtype.ThisVar).Dot(m.Name)
//@   ensures@C01,C18 m.CustomCall == nil && g.conf.OutputFormat == config.FormatFunction && m.Generated ==> result == jen.Id(m.Name)
//@   ensures@C01,C18 m.CustomCall == nil && !(m.Generated && (g.conf.OutputFormat == config.FormatStruct || g.conf.OutputFormat == config.FormatFunction)) ==> result == jen.Qual(m.Package, m.Name)

// ---- C17/C06: every registration error of a declared method aborts the generation ----
//@ func setupGenerator(converter, n)
//@   props C17 C06 C03
//@   propagates
//@   requires@C13 converter != nil && n != nil
//@   ensures err == nil ==> result != nil

// C07: a delegate that can fail needs a method that returns an error
//@ func generator.delegateMethod(g; ctx, delegateTo, sourceID)
//@   props C07 C06
// C14: the arguments of the delegate are passed in the declared order (each one appended after those before it)
//@   at@C14 call append#1 assert seqEq(arg0, params)
//@   at@C14 call append#2 assert seqEq(arg0, params)
//@   at@C14 call append#3 assert seqEq(arg0, params)
//@   assigns nothing
//@   ensures delegateTo.ReturnError && !g.lookup.ByID(ctx.IndexID).ReturnError ==> err != nil && result == nil
//@   ensures err == nil ==> result != nil

// ---- C15/C16: output files ----
//@ func getOutputDir(c)
//@   props C15 C13
//@   pure
//@   requires@C13 c != nil
//@   ensures result == ite(filepath.IsAbs(c.OutputFile), c.OutputFile, filepath.Join(filepath.Dir(c.FileName), c.OutputFile))

// Get: a file is created once per output path, with the generated-code header and (iff configured) the build
// constraint; converters selecting the same path share the file and the namer and must agree on the package
//@ func fileManager.Get(m; conv, cfg)
//@   props C15 C16
//@   requires@C13 m != nil && conv != nil && m.Files != nil
//@   ensures err == nil ==> has(m.Files, getOutputDir(conv)) && result0 == m.Files[getOutputDir(conv)].Content && result1 == m.Files[getOutputDir(conv)].Namer
//@   ensures old(has(m.Files, getOutputDir(conv))) ==> m.Files[getOutputDir(conv)] == old(m.Files[getOutputDir(conv)])
//@   ensures old(has(m.Files, getOutputDir(conv))) && old(m.Files[getOutputDir(conv)].PackageID) != conv.PackageID() ==> err != nil
//@   ensures forall k string :: k != getOutputDir(conv) ==> has(m.Files, k) == old(has(m.Files, k)) && m.Files[k] == old(m.Files[k])
//@   at@C16 call f.Content.HeaderComment#* assert !ok
//@   at@C16 call f.Content.HeaderComment#1 assert arg0 == "// Code generated by github.com/jmattheis/goverter, DO NOT EDIT."
//@   at@C16 call f.Content.HeaderComment#2 assert cfg.BuildConstraint != "" && arg0 == "//go:build " + cfg.BuildConstraint
//@   at@C16 return assert !ok && cfg.BuildConstraint == "" ==> true
// the package clause: the configured name when there is one, otherwise left to jennifer (directory name, normalised)
//@   at@C15 call jen.NewFilePath#1 assert conv.OutputPackageName == "" && arg0 == conv.OutputPackagePath
//@   at@C15 call jen.NewFilePathName#1 assert conv.OutputPackageName != "" && arg0 == conv.OutputPackagePath && arg1 == conv.OutputPackageName
// every newly created file gets the generated-code header, and the build constraint whenever one is configured
// (whatever its package is: the constraint is what keeps stale output out of the next run)
//@   ensures@C16 err == nil && !old(has(m.Files, getOutputDir(conv))) ==> reached("f.Content.HeaderComment#1")
//@   ensures@C16 err == nil && !old(has(m.Files, getOutputDir(conv))) && cfg.BuildConstraint != "" ==> reached("f.Content.HeaderComment#2")

//@ func Generate(converters, c)
//@   props C15 C17 C03
//@   propagates

//@ func generator.convertTo(g; ctx, assignTo, sourceID, source, target, errPath)
//@   props C10 C03 C13
//@   propagates
//@   requires@C13 builder.GenInv(g) && builder.CallOK(ctx, sourceID, source, target) && builder.AssignOK(assignTo)
//@   ensures@C13 builder.GenInv(g)
//@   ensures !old(target.Pointer && target.PointerInner.Struct) ==> err != nil
//@   ensures@C10,C03,C13 !old(source.Struct) && !old(source.Pointer && source.PointerInner.Struct) ==> err != nil
// the update is generated field by field by the struct rule itself (no rule lookup: an update never degenerates into
// `target = source`), into the struct the update argument points to
//@   at@C10 call s.Assign#1 assert arg1 == ctx && arg2 == assignTo && arg3 == sourceID && arg5 == target.PointerInner && (old(source.Struct) ==> arg4 == old(source))

// ---- C01/C18: the per-format skeleton: exactly the declared API is emitted ----
// struct format: `type <Name> struct{}` and one method on *<Name> per definition; variables format: the user's
// own function variables (they live in the package that DECLARES them) are assigned in init(), helpers are plain
// functions; function format: one plain function per definition. Every definition is emitted exactly once.
//@ func generator.appendGenerated(g; f)
//@   props C01 C18
// (for the three values output:format accepts -- validated by parse.Enum in parseConverterLine -- every definition
// is emitted exactly once)
//@   loop 2 invariant (g.conf.OutputFormat == config.FormatStruct || g.conf.OutputFormat == config.FormatVariable || g.conf.OutputFormat == config.FormatFunction) ==> len(funcs) + len(init) == idx
//@   at@C01 call append#1 assert g.conf.OutputFormat == config.FormatStruct
//@           && arg1 == jen.Code(jen.Func().Params(jen.Id(xtype.ThisVar).Op("*").Id(g.conf.Name)).Id(def.Name).Add(def.Jen))
//@   at@C01 call append#2 assert g.conf.OutputFormat == config.FormatVariable && def.Explicit
//@           && arg1 == jen.Code(jen.Qual(def.Package, def.Name).Op("=").Func().Add(def.Jen))
//@   at@C01 call append#3 assert g.conf.OutputFormat == config.FormatVariable && !def.Explicit
//@           && arg1 == jen.Code(jen.Func().Id(def.Name).Add(def.Jen))
//@   at@C01 call append#4 assert g.conf.OutputFormat == config.FormatFunction
//@           && arg1 == jen.Code(jen.Func().Id(def.Name).Add(def.Jen))
