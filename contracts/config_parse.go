//go:build verif

package parse

// Contracts for package config/parse (comment-only; checked by /verif/engine).

//@ pred BoolOK(rem string) bool = len(strings.Fields(rem)) == 0 || (len(strings.Fields(rem)) == 1 && (strings.Fields(rem)[0] == "yes" || strings.Fields(rem)[0] == "no"))
//@ pred BoolValue(rem string) bool = len(strings.Fields(rem)) == 0 || strings.Fields(rem)[0] == "yes"
//@ pred StringOK(rem string) bool = len(strings.Fields(rem)) == 1
//@ pred StringValue(rem string) string = strings.Fields(rem)[0]

// "the text after the first space is the value"
//@ func Command(value)
//@   props C12 C19 C13 C14
//@   pure
//@   ensures !strings.Contains(value, " ") ==> result0 == value && result1 == ""
//@   ensures strings.Contains(value, " ") ==> value == result0 + " " + result1 && !strings.Contains(result0, " ")

// a line of a doc comment declares the context parameter named ContextName(l)
//@ pred CmdName(l string) string = fst(Command(l))
//@ pred CmdRest(l string) string = snd(Command(l))
//@ pred IsContextLine(l string) bool = CmdName(l) == "context" && StringOK(CmdRest(l))
//@ pred ContextName(l string) string = StringValue(CmdRest(l))
//@ pred DeclaresContext(lines []string, k string) bool = exists j int :: 0 <= j && j < len(lines) && IsContextLine(lines[j]) && ContextName(lines[j]) == k

//@ func Enum(empty, remaining, values)
//@   props C12 C13 C04 C10 C11
//@   ensures len(strings.Fields(remaining)) == 0 && empty ==> result == "" && err == nil
//@   ensures (len(strings.Fields(remaining)) == 0 && !empty) || len(strings.Fields(remaining)) > 1 ==> err != nil
//@   ensures len(strings.Fields(remaining)) == 1 ==> (err == nil) == (exists i int :: 0 <= i && i < len(values) && strings.Fields(remaining)[0] == string(values[i]))
//@   ensures len(strings.Fields(remaining)) == 1 && err == nil ==> string(result) == strings.Fields(remaining)[0]
//@   loop 1 invariant forall j int :: 0 <= j && j < idx ==> fields[0] != string(values[j])

// a bare setting or `yes` enables, `no` disables, anything else is an error
//@ func Bool(remaining)
//@   props C12 C04 C10 C11
//@   ensures (err == nil) == BoolOK(remaining)
//@   ensures err == nil ==> result == BoolValue(remaining)

//@ func String(remaining)
//@   props C12 C13
//@   ensures (err == nil) == StringOK(remaining)
//@   ensures err == nil ==> result == StringValue(remaining)
//@   ensures err != nil ==> result == ""

//@ func Regex(remaining)
//@   props C12
//@   ensures !StringOK(remaining) ==> err != nil && result == nil

// ---- C19: a line of the flattened doc comment is a setting iff its trimmed text starts with
// ---- "goverter:"; the setting text is what follows the prefix; lines are appended in scan order ----
//@ func SettingLines(comment)
//@   props C19 C12 C13
//@   pure
//@   at call append#1 assert strings.HasPrefix(strings.TrimSpace(scanner.Text()), "goverter:")
//@           && arg1 == strings.TrimPrefix(strings.TrimSpace(scanner.Text()), "goverter:")

// every comment of the group contributes its text: nothing is dropped but the comment markers and at most
// one leading space (a line like `//<TAB>goverter:x` stays a line and is trimmed later by SettingLines)
//@ func CommentToString(g)
//@   props C19
//@   pure
//@   loop 2 invariant idx > 0 ==> reached("strings.Split#1")
//@   at call strings.Split#1 assert arg1 == "\n" && strings.Contains(comments[idx], arg0) && len(arg0) + 4 >= len(comments[idx])

// C13/C19: trimming only removes a suffix: the result is a prefix of the line, never longer, and the scan stays inside
// the string and terminates (i decreases)
//@ func stripTrailingWhitespace(s)
//@   props C19 C13
//@   pure
//@   loop 1 invariant 0 <= i && i <= len(s)
//@   loop 1 decreases i
//@   ensures strings.HasPrefix(s, result) && len(result) <= len(s)

// ---- C15: @cwd/ paths are resolved against the working directory, everything else is kept ----
//@ func File(cwd, rest)
//@   props C15 C09
//@   ensures err == nil && !strings.HasPrefix(StringValue(rest), "@cwd/") ==> result == StringValue(rest)
//@   ensures !StringOK(rest) ==> err != nil
// a @cwd/ path is anchored at the working directory: the result is absolute (callers decide "relative to the
// declaring file" vs "as given" with filepath.IsAbs)
//@   ensures err == nil && strings.HasPrefix(StringValue(rest), "@cwd/") ==> filepath.IsAbs(result)
