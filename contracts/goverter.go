//go:build verif

package goverter

// Contracts for the root package (comment-only; checked by /verif/engine).

// every output file: create the directory (0755), then write the whole content (0644)
//@ func writeFiles(files)
//@   props C09 C15 C17 C13 C16
//@   propagates
//@   maprange 1 unordered-result paths
//@   at@C15,C17 call os.MkdirAll#* assert arg0 == filepath.Dir(path) && arg1 == 0o755
//@   at@C15,C16,C17 call os.WriteFile#* assert arg0 == path && same(arg1, files[path]) && arg2 == 0o644
// every file of the result is written, each after its directory has been created
//@   loop@C15,C16,C17 2 invariant idx > 0 ==> reached("os.MkdirAll#1") && reached("os.WriteFile#1")

// ---- C17: generate everything in memory, write only after every converter succeeded ----
//@ func GenerateConverters(c)
//@   props C17 C15 C13
//@   propagates
//@   requires@C13 c != nil
//@   at call writeFiles#1 assert err == nil

// both package loads get the same build tags; the generator gets the output build constraint
//@ func generateConvertersRaw(c)
//@   props C17 C16
//@   propagates
//@   requires@C13 c != nil
//@   at@C16 call comments.ParseDocs#1 assert arg0.BuildTags == c.BuildTags && same(arg0.PackagePattern, c.PackagePatterns) && arg0.WorkingDir == c.WorkingDir
//@   at@C16 call config.Parse#1 assert arg0.BuildTags == c.BuildTags && arg0.WorkDir == c.WorkingDir
//@   at@C16 call generator.Generate#1 assert arg1.BuildConstraint == c.OutputBuildConstraint
