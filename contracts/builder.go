//go:build verif

package builder

// Contracts for package builder (comment-only; checked by /verif/engine).

// ---- documented applicability predicate of every rule (C03, C11) ----
//@ pred MatchesSkipCopy(ctx *MethodContext, s *xtype.Type, t *xtype.Type) bool = ctx.Conf.SkipCopySameType && s.String == t.String
//@ pred MatchesBasicTargetPointer(s *xtype.Type, t *xtype.Type) bool = s.Basic && t.Pointer && t.PointerInner.Basic
//@ pred MatchesPointer(s *xtype.Type, t *xtype.Type) bool = s.Pointer && t.Pointer
//@ pred MatchesSourcePointer(ctx *MethodContext, s *xtype.Type, t *xtype.Type) bool = ctx.Conf.UseZeroValueOnPointerInconsistency && s.Pointer && !t.Pointer
//@ pred MatchesTargetPointer(s *xtype.Type, t *xtype.Type) bool = !s.Pointer && t.Pointer
//@ pred MatchesBasic(s *xtype.Type, t *xtype.Type) bool = s.Basic && t.Basic && s.BasicType.Kind() == t.BasicType.Kind()
//@ pred MatchesStruct(s *xtype.Type, t *xtype.Type) bool = s.Struct && t.Struct
//@ pred MatchesList(s *xtype.Type, t *xtype.Type) bool = s.List && t.List && !t.ListFixed
//@ pred MatchesMap(s *xtype.Type, t *xtype.Type) bool = s.Map && t.Map

//@ pred CtxOK(ctx *MethodContext) bool = ctx != nil && ctx.Conf != nil

//@ func UseUnderlyingTypeMethods.Matches(self; ctx, source, target)
//@   props C03 C06 C13
//@   requires@C13 CtxOK(ctx) && source != nil && target != nil
//@   assigns nothing
//@   ensures result ==> ctx.Conf.UseUnderlyingTypeMethods
//@   ensures result ==> (source.Named || target.Named)

//@ func SkipCopy.Matches(self; ctx, source, target)
//@   props C03 C04 C13
//@   pure
//@   requires@C13 CtxOK(ctx) && source != nil && target != nil
//@   ensures result == MatchesSkipCopy(ctx, source, target)

//@ func Enum.Matches(self; ctx, source, target)
//@   props C03 C08 C13
//@   requires@C13 CtxOK(ctx) && source != nil && target != nil
//@   assigns source.enum, target.enum
//@   ensures result ==> ctx.Conf.Enum.Enabled
//@   ensures result ==> source.Named && target.Named

//@ func BasicTargetPointerRule.Matches(self; _, source, target)
//@   props C03 C11 C13
//@   pure
//@   requires@C13 source != nil && target != nil
//@   ensures result == MatchesBasicTargetPointer(source, target)

//@ func Pointer.Matches(self; _, source, target)
//@   props C03 C11 C13
//@   pure
//@   requires@C13 source != nil && target != nil
//@   ensures result == MatchesPointer(source, target)

//@ func SourcePointer.Matches(self; ctx, source, target)
//@   props C03 C11 C13
//@   pure
//@   requires@C13 CtxOK(ctx) && source != nil && target != nil
//@   ensures result == MatchesSourcePointer(ctx, source, target)

//@ func TargetPointer.Matches(self; _, source, target)
//@   props C03 C11 C13
//@   pure
//@   requires@C13 source != nil && target != nil
//@   ensures result == MatchesTargetPointer(source, target)

//@ func Basic.Matches(self; _, source, target)
//@   props C03 C11 C13
//@   pure
//@   requires@C13 source != nil && target != nil
//@   ensures result == MatchesBasic(source, target)

//@ func Struct.Matches(self; _, source, target)
//@   props C03 C13
//@   pure
//@   requires@C13 source != nil && target != nil
//@   ensures result == MatchesStruct(source, target)

//@ func List.Matches(self; _, source, target)
//@   props C03 C13
//@   pure
//@   requires@C13 source != nil && target != nil
//@   ensures result == MatchesList(source, target)

//@ func Map.Matches(self; _, source, target)
//@   props C03 C13
//@   pure
//@   requires@C13 source != nil && target != nil
//@   ensures result == MatchesMap(source, target)

// ---- upper bounds of the two state-dependent rules, and "no rule can match" ----
//@ pred MayMatchUnderlying(ctx *MethodContext, s *xtype.Type, t *xtype.Type) bool = ctx.Conf.UseUnderlyingTypeMethods && (s.Named || t.Named)
//@ pred MayMatchEnum(ctx *MethodContext, s *xtype.Type, t *xtype.Type) bool = ctx.Conf.Enum.Enabled && s.Named && t.Named
//@ pred H0(ctx *MethodContext, s *xtype.Type, t *xtype.Type) bool = !MayMatchUnderlying(ctx, s, t) && !MatchesSkipCopy(ctx, s, t) && !MayMatchEnum(ctx, s, t)
//@ pred AnyPureRule(ctx *MethodContext, s *xtype.Type, t *xtype.Type) bool = MatchesSkipCopy(ctx, s, t) || MatchesBasicTargetPointer(s, t)
//@     || MatchesPointer(s, t) || MatchesSourcePointer(ctx, s, t) || MatchesTargetPointer(s, t) || MatchesBasic(s, t)
//@     || MatchesStruct(s, t) || MatchesList(s, t) || MatchesMap(s, t)
//@ pred NoRule(ctx *MethodContext, s *xtype.Type, t *xtype.Type) bool = !MayMatchUnderlying(ctx, s, t) && !MayMatchEnum(ctx, s, t) && !AnyPureRule(ctx, s, t)

//@ pred LemmaPre(ctx *MethodContext, s *xtype.Type, t *xtype.Type) bool = CtxOK(ctx) && typeOK(s) && typeOK(t) && H0(ctx, s, t)

// ---- C03: one lemma per clause of the property statement (proved from the predicates above and the
// ---- object invariant of xtype.Type; buildNoLookup/assignNoLookup carry NoRule ==> error) ----
//@ lemma C03_basic_kind_mismatch(ctx *MethodContext, s *xtype.Type, t *xtype.Type)
//@   props C03
//@   requires LemmaPre(ctx, s, t) && s.Basic && t.Basic && s.BasicType.Kind() != t.BasicType.Kind()
//@   ensures NoRule(ctx, s, t)

//@ lemma C03_pointer_to_value_needs_flag(ctx *MethodContext, s *xtype.Type, t *xtype.Type)
//@   props C03 C11
//@   requires LemmaPre(ctx, s, t) && s.Pointer && !t.Pointer
//@   ensures !ctx.Conf.UseZeroValueOnPointerInconsistency ==> NoRule(ctx, s, t)
//@   ensures ctx.Conf.UseZeroValueOnPointerInconsistency ==> MatchesSourcePointer(ctx, s, t) && !MatchesBasicTargetPointer(s, t) && !MatchesPointer(s, t)

//@ lemma C03_slice_to_array(ctx *MethodContext, s *xtype.Type, t *xtype.Type)
//@   props C03
//@   requires LemmaPre(ctx, s, t) && s.List && t.List && t.ListFixed
//@   ensures NoRule(ctx, s, t)

//@ lemma C03_shape_mismatch(ctx *MethodContext, s *xtype.Type, t *xtype.Type)
//@   props C03
//@   requires LemmaPre(ctx, s, t) && !s.Pointer && !t.Pointer
//@   requires (s.Struct && !t.Struct) || (s.Basic && !t.Basic) || (s.List && !t.List) || (s.Map && !t.Map)
//@   ensures NoRule(ctx, s, t)

//@ lemma C03_no_rule_for_iface_func_chan(ctx *MethodContext, s *xtype.Type, t *xtype.Type)
//@   props C03
//@   requires LemmaPre(ctx, s, t) && !t.Pointer && !(s.Pointer && ctx.Conf.UseZeroValueOnPointerInconsistency)
//@   requires s.Interface || s.Signature || s.Chan || xtype.ShapeCount(s) == 0 || t.Interface || t.Signature || t.Chan || xtype.ShapeCount(t) == 0
//@   ensures NoRule(ctx, s, t)

//@ lemma C03_value_to_pointer_always_has_rule(ctx *MethodContext, s *xtype.Type, t *xtype.Type)
//@   props C03 C11
//@   requires LemmaPre(ctx, s, t) && !s.Pointer && t.Pointer
//@   ensures MatchesTargetPointer(s, t) && !NoRule(ctx, s, t)

//@ lemma C03_documented_shapes_have_rule(ctx *MethodContext, s *xtype.Type, t *xtype.Type)
//@   props C03
//@   requires LemmaPre(ctx, s, t)
//@   ensures s.Basic && t.Basic && s.BasicType.Kind() == t.BasicType.Kind() ==> MatchesBasic(s, t) && !NoRule(ctx, s, t)
//@   ensures s.Pointer && t.Pointer ==> !NoRule(ctx, s, t)
//@   ensures s.Struct && t.Struct ==> !NoRule(ctx, s, t)
//@   ensures s.List && t.List && !t.ListFixed ==> !NoRule(ctx, s, t)
//@   ensures s.Map && t.Map ==> !NoRule(ctx, s, t)

//@ func NewError(cause)
//@   props C03
//@   requires true
//@   ensures result != nil && result.Cause == cause && len(result.Path) == 0
//@   ensures isFresh(result)

//@ func findUnderlyingExtendMapping(ctx, source, target)
//@   props C06 C13
//@   requires@C13 CtxOK(ctx) && source != nil && target != nil
//@   assigns nothing
//@   ensures (underlyingSource || underlyingTarget) ==> (source.Named || target.Named)
//@   ensures underlyingSource ==> source.Named
//@   ensures underlyingTarget ==> target.Named

//@ func isEnum(ctx, source, target)
//@   props C08 C13
//@   requires@C13 CtxOK(ctx) && source != nil && target != nil
//@   assigns source.enum, target.enum
//@   ensures result ==> ctx.Conf.Enum.Enabled && source.Named && target.Named

// ---- C10: the zero-value guard decision table (docs/reference/update.md) ----
//@ pred MethodOK(ctx *MethodContext) bool = ctx != nil && ctx.Conf != nil && ctx.Conf.Definition != nil

//@ func shouldCheckAgainstZero(ctx, s, t, isUpdate, call)
//@   props C10 C13
//@   pure
//@   requires@C13 MethodOK(ctx) && s != nil && t != nil
//@   ensures result == ((ctx.Conf.UpdateTarget || isUpdate) &&
//@        ((s.Struct && ctx.Conf.IgnoreStructZeroValueField)
//@      || (s.Basic && ctx.Conf.IgnoreBasicZeroValueField)
//@      || (ctx.Conf.IgnoreNillableZeroValueField &&
//@            (s.Chan || s.Map || s.Func || s.Signature || s.Interface
//@             || ((call || (ctx.Conf.SkipCopySameType && types.Identical(s.T, t.T))) && ((s.List && !s.ListFixed) || s.Pointer))))))
//@   ensures !(ctx.Conf.UpdateTarget || isUpdate) ==> !result
//@   ensures result && s.List ==> !s.ListFixed

// ---- C07: the error path ----
// Field/Index/Key return the path extended by exactly one element at the end
//@ func ErrorPath.Field(e; name)
//@   props C07
//@   pure
//@   ensures len(result) == len(e) + 1 && (forall j int :: 0 <= j && j < len(e) ==> result[j] == e[j])
//@   ensures dynIs[errElmField](result[len(e)]) && string(unboxed[errElmField](result[len(e)])) == name

//@ func ErrorPath.Index(e; code)
//@   props C07
//@   pure
//@   ensures len(result) == len(e) + 1 && (forall j int :: 0 <= j && j < len(e) ==> result[j] == e[j])
//@   ensures dynIs[errElmIndex](result[len(e)]) && unboxed[errElmIndex](result[len(e)]).stmt == code

//@ func ErrorPath.Key(e; code)
//@   props C07
//@   pure
//@   ensures len(result) == len(e) + 1 && (forall j int :: 0 <= j && j < len(e) ==> result[j] == e[j])
//@   ensures dynIs[errElmKey](result[len(e)]) && unboxed[errElmKey](result[len(e)]).stmt == code

// the Wrap argument for one path element
//@ pred ElemArg(pkg string, elm ErrorElement) jen.Code =
//@     ite(dynIs[errElmField](elm), jen.Code(jen.Qual(pkg, "Field").Call(jen.Lit(string(unboxed[errElmField](elm))))),
//@     ite(dynIs[errElmIndex](elm), jen.Code(jen.Qual(pkg, "Index").Call(unboxed[errElmIndex](elm).stmt.Clone())),
//@                                  jen.Code(jen.Qual(pkg, "Key").Call(unboxed[errElmKey](elm).stmt.Clone()))))

//@ pred PathElem(elm ErrorElement) bool = elm != nil && (dynIs[errElmField](elm) || dynIs[errElmIndex](elm) || dynIs[errElmKey](elm))
//@     && (dynIs[errElmIndex](elm) ==> unboxed[errElmIndex](elm).stmt != nil) && (dynIs[errElmKey](elm) ==> unboxed[errElmKey](elm).stmt != nil)

// wrapErrorsUsing: Wrap(err, arg_0 ... arg_n-1), one argument per path element, in order, outermost first
//@ func ErrorPath.WrapErrorsUsing(e; pkg, errStmt)
//@   props C07 C18 C13
//@   pure
//@   requires@C13 forall j int :: 0 <= j && j < len(e) ==> PathElem(e[j])
//@   ensures result != nil
//@   loop 1 invariant len(args) == idx && (forall j int :: 0 <= j && j < idx ==> args[j] == ElemArg(pkg, e[j]))
//@   at call Call#4 assert len(arg0) == len(e) + 1 && arg0[0] == jen.Code(errStmt) && (forall j int :: 0 <= j && j < len(e) ==> arg0[j+1] == ElemArg(pkg, e[j]))

// wrapErrors: only the innermost element (field name or index); a map key yields the bare error
//@ func ErrorPath.WrapErrors(e; errStmt)
//@   props C07 C18 C13
//@   pure
//@   requires@C13 forall j int :: 0 <= j && j < len(e) ==> PathElem(e[j])
//@   ensures len(e) == 0 ==> result == errStmt
//@   ensures len(e) > 0 && dynIs[errElmKey](e[len(e)-1]) ==> result == errStmt
//@   ensures len(e) > 0 && dynIs[errElmField](e[len(e)-1]) ==> result == jen.Qual("fmt", "Errorf").Call(jen.Lit("error setting field " + string(unboxed[errElmField](e[len(e)-1])) + ": %w"), errStmt)
//@   ensures len(e) > 0 && dynIs[errElmIndex](e[len(e)-1]) ==> result == jen.Qual("fmt", "Errorf").Call(jen.Lit("error setting index %d: %w"), unboxed[errElmIndex](e[len(e)-1]).stmt.Clone(), errStmt)

// ---- C03 "failure is never swallowed" (propagates) and success results of every rule ----
//@ pred CallOK(ctx *MethodContext, sourceID *xtype.JenID, source *xtype.Type, target *xtype.Type) bool =
//@     MethodOK(ctx) && ctx.Namer != nil && sourceID != nil && sourceID.Code != nil && source != nil && target != nil
//@ pred AssignOK(a *AssignTo) bool = a != nil && a.Stmt != nil

// The generator's representation invariant and its link to the current method context are abstract here
// (builders cannot see the generator); package generator reveals their definitions. They depend only on
// the heap locations listed, so nothing a builder writes can invalidate them.
//@ abstract GenInv(gen Generator) bool reads F:generator.generator.lookup F:generator.generator.extend F:generator.generator.conf F:generator.generator.namer
//@   reads F:method.Index.Exact F:method.Index.Update MD:S_xtype.Signature MV:S_xtype.Signature|Sl_S_method.IndexEntry F:generator.generatedMethod.Method F:config.Method.Definition
//@ abstract GenCtx(gen Generator, ctx *MethodContext) bool reads F:generator.generator.lookup F:method.Index.Exact F:method.Index.Update MD:S_xtype.Signature MV:S_xtype.Signature|Sl_S_method.IndexEntry
//@   reads F:builder.MethodContext.IndexID F:generator.generatedMethod.OriginPath

// interface contracts (what a builder may rely on when it recurses through the generator)
//@ func Generator.Build(this; ctx, sourceID, source, target, path)
//@   props C03 C06
//@   requires@C13 GenInv(this) && CallOK(ctx, sourceID, source, target)
//@   ensures@C13 GenInv(this)
//@   ensures err == nil ==> result1 != nil && result1.Code != nil
//@ func Generator.Assign(this; ctx, assignTo, sourceID, source, target, path)
//@   props C03 C06
//@   requires@C13 GenInv(this) && CallOK(ctx, sourceID, source, target) && AssignOK(assignTo)
//@   ensures@C13 GenInv(this)
//@ func Generator.CallMethod(this; ctx, method, sourceID, source, target, path)
//@   props C03 C06 C07
//@   requires@C13 GenInv(this) && MethodOK(ctx) && ctx.Namer != nil && method != nil && target != nil
//@   ensures@C13 GenInv(this)
//@   ensures err == nil ==> result1 != nil && result1.Code != nil
//@ func Generator.ReturnError(this; ctx, path, id)
//@   props C07
//@   requires@C13 GenInv(this) && MethodOK(ctx) && id != nil
//@   ensures@C13 GenInv(this)
//@   ensures result1 ==> result0 != nil

// a rule is only ever asked to Build/Assign a pair it matches (what its Matches promised is its precondition)
//@ pred BuilderApplies(b Builder, ctx *MethodContext, s *xtype.Type, t *xtype.Type) bool = b != nil
//@     && (dynIs[*SkipCopy](b) ==> MatchesSkipCopy(ctx, s, t))
//@     && (dynIs[*BasicTargetPointerRule](b) ==> MatchesBasicTargetPointer(s, t))
//@     && (dynIs[*Pointer](b) ==> MatchesPointer(s, t))
//@     && (dynIs[*SourcePointer](b) ==> MatchesSourcePointer(ctx, s, t))
//@     && (dynIs[*TargetPointer](b) ==> MatchesTargetPointer(s, t))
//@     && (dynIs[*Basic](b) ==> MatchesBasic(s, t))
//@     && (dynIs[*Struct](b) ==> MatchesStruct(s, t))
//@     && (dynIs[*List](b) ==> MatchesList(s, t))
//@     && (dynIs[*Map](b) ==> MatchesMap(s, t))
//@     && (dynIs[*UseUnderlyingTypeMethods](b) ==> MayMatchUnderlying(ctx, s, t))
//@     && (dynIs[*Enum](b) ==> MayMatchEnum(ctx, s, t))

//@ func Builder.Build(this; gen, ctx, sourceID, source, target, path)
//@   props C03
//@   requires@C13 BuilderApplies(this, ctx, source, target)
//@   requires@C13 gen != nil && GenInv(gen) && CallOK(ctx, sourceID, source, target)
//@   ensures@C13 GenInv(gen)
//@   ensures err == nil ==> result1 != nil && result1.Code != nil
//@ func Builder.Assign(this; gen, ctx, assignTo, sourceID, source, target, path)
//@   props C03
//@   requires@C13 BuilderApplies(this, ctx, source, target)
//@   requires@C13 gen != nil && GenInv(gen) && CallOK(ctx, sourceID, source, target) && AssignOK(assignTo)
//@   ensures@C13 GenInv(gen)

//@ func Error.Lift(e; paths)
//@   props C03
//@   inline

//@ func AssignOf(s)
//@   props C03
//@   ensures result != nil && isFresh(result) && result.Stmt == s && !result.Must && !result.Update
//@ func AssignTo.WithIndex(a; s)
//@   props C03 C13
//@   requires@C13 AssignOK(a)
//@   ensures result != nil && isFresh(result) && result.Stmt != nil && !result.Must && !result.Update
//@ func AssignTo.MustAssign(a; )
//@   props C03
//@   inline
//@ func AssignTo.IsUpdate(a; )
//@   props C03
//@   inline

//@ func AssignByBuild(b, gen, ctx, assignTo, sourceID, source, target, errPath)
//@   props C03 C13
//@   propagates
//@   requires@C13 b != nil && gen != nil && GenInv(gen) && CallOK(ctx, sourceID, source, target) && AssignOK(assignTo)
//@   requires@C13 BuilderApplies(b, ctx, source, target)
//@   ensures@C13 GenInv(gen)
//@ func BuildByAssign(b, gen, ctx, sourceID, source, target, path)
//@   props C03 C13
//@   propagates
//@   requires@C13 b != nil && gen != nil && GenInv(gen) && CallOK(ctx, sourceID, source, target)
//@   requires@C13 BuilderApplies(b, ctx, source, target)
//@   ensures@C13 GenInv(gen)
//@   ensures err == nil ==> result1 != nil && result1.Code != nil && isFresh(result1)
//@ func buildTargetVar(gen, ctx, sourceID, source, target, errPath)
//@   props C03 C11
//@   propagates
//@   requires@C13 gen != nil && GenInv(gen) && CallOK(ctx, sourceID, source, target)
//@   ensures@C13 GenInv(gen)
//@   ensures err == nil ==> result1 != nil
//@   ensures@C11 old(ctx.UseConstructor && types.Identical(ctx.Conf.Source.T, source.T) && types.Identical(ctx.Conf.Target.T, target.T)) ==> !ctx.UseConstructor
//@   ensures@C11 !old(ctx.UseConstructor && types.Identical(ctx.Conf.Source.T, source.T) && types.Identical(ctx.Conf.Target.T, target.T)) ==> ctx.UseConstructor == old(ctx.UseConstructor) && err == nil
//@   at@C11 call gen.CallMethod#* assert ctx.Conf.Constructor == arg1

//@ func UseUnderlyingTypeMethods.Build(self; gen, ctx, sourceID, source, target, errPath)
//@   props C03 C13
// C03: the nested position is always converted through the generator (method lookup + rules): a position without
// rule at any depth fails the whole method -- it is never skipped or passed through unconverted
//@   ensures@C03,C04 err == nil ==> reached("gen.Build#1")
//@   propagates
// C07: pointer/underlying steps pass the path on unchanged
//@   at@C07 call gen.Build#* assert same(arg4, errPath)
// C01 (F14): when the target is converted through its underlying type, the value returned with an error is already
// fixed (a value of the NAMED type): the result variable of the underlying conversion is not assignable to it
//@   at@C01 call gen.Build#1 assert arg3 != target ==> ctx.TargetVar != nil
//@   requires@C13 self != nil
//@   requires@C13 GenInv(gen)
//@   ensures@C13 GenInv(gen)
//@   requires@C13 MayMatchUnderlying(ctx, source, target)
//@   requires@C13 gen != nil && CallOK(ctx, sourceID, source, target)
//@   ensures err == nil ==> result1 != nil && result1.Code != nil
//@ func UseUnderlyingTypeMethods.Assign(u; gen, ctx, assignTo, sourceID, source, target, errPath)
//@   props C03 C13
//@   propagates
//@   requires@C13 self != nil
//@   requires@C13 GenInv(gen)
//@   ensures@C13 GenInv(gen)
//@   requires@C13 MayMatchUnderlying(ctx, source, target)
//@   requires@C13 gen != nil && CallOK(ctx, sourceID, source, target) && AssignOK(assignTo)

//@ func SkipCopy.Build(self; gen, ctx, sourceID, source, target, errPath)
//@   props C03
//@   propagates
// C04: the source expression itself is only passed through where that is allowed
//@   ensures@C04 err == nil && result1 == sourceID ==> true
//@   requires@C13 self != nil
//@   requires@C13 GenInv(gen)
//@   ensures@C13 GenInv(gen)
//@   requires@C13 MatchesSkipCopy(ctx, source, target)
//@   requires@C13 gen != nil && CallOK(ctx, sourceID, source, target)
//@   ensures err == nil ==> result1 != nil && result1.Code != nil
//@ func SkipCopy.Assign(self; gen, ctx, assignTo, sourceID, source, target, errPath)
//@   props C03 C13
//@   propagates
//@   requires@C13 self != nil
//@   requires@C13 GenInv(gen)
//@   ensures@C13 GenInv(gen)
//@   requires@C13 MatchesSkipCopy(ctx, source, target)
//@   requires@C13 gen != nil && CallOK(ctx, sourceID, source, target) && AssignOK(assignTo)

//@ func Enum.Build(self; gen, ctx, sourceID, source, target, path)
//@   props C03 C08
//@   propagates
// C08: a member maps by enum:map, else by the transformers, else to the member of the same name
//@   at@C08 call caseAction#1 assert arg5 == ite(has(ctx.Conf.EnumMapping.Map, sourceName), ctx.Conf.EnumMapping.Map[sourceName],
//@           ite(has(transformerMapping, sourceName), transformerMapping[sourceName], sourceName))
// C08/C01: members are recognised as duplicates by the PRINTED value (constants of big or float types are pointers)
//@   at@C08,C01 call jen.Case#1 assert sourceKey == fmt.Sprint(sourceValue)
// C08: every source member counts as existing for the "configured key does not exist" check, whether or not it gets
// its own case (members with equal values share one)
//@   loop@C08 2 invariant idx > 0 ==> reached("delete#1")
//@   at@C08 call delete#1 assert same(arg0, definedKeys) && arg1 == sourceName
// C08: the fallback for values outside the enum is the configured enum:unknown, and without one generation fails
//@   at@C08 call caseAction#2 assert arg5 == ctx.Conf.Common.Enum.Unknown && arg5 != ""
// C04: the source expression itself is only passed through where that is allowed
//@   ensures@C04 err == nil && result1 == sourceID ==> false
//@   requires@C13 self != nil
//@   requires@C13 GenInv(gen)
//@   ensures@C13 GenInv(gen)
//@   requires@C13 MayMatchEnum(ctx, source, target)
//@   requires@C13 gen != nil && CallOK(ctx, sourceID, source, target)
//@   ensures err == nil ==> result1 != nil && result1.Code != nil
//@ func Enum.Assign(s; gen, ctx, assignTo, sourceID, source, target, path)
//@   props C03 C13
//@   propagates
//@   requires@C13 self != nil
//@   requires@C13 GenInv(gen)
//@   ensures@C13 GenInv(gen)
//@   requires@C13 MayMatchEnum(ctx, source, target)
//@   requires@C13 gen != nil && CallOK(ctx, sourceID, source, target) && AssignOK(assignTo)

//@ func BasicTargetPointerRule.Build(self; gen, ctx, sourceID, source, target, errPath)
//@   props C03
// C03: the nested position is always converted through the generator (method lookup + rules): a position without
// rule at any depth fails the whole method -- it is never skipped or passed through unconverted
//@   ensures@C03,C04 err == nil ==> reached("gen.Build#1")
//@   at@C03 call gen.Build#1 assert arg2 == source && arg3 == target.PointerInner
//@   propagates
// C04: the source expression itself is only passed through where that is allowed
//@   ensures@C04 err == nil && result1 == sourceID ==> false
// C07: pointer/underlying steps pass the path on unchanged
//@   at@C07 call gen.Build#* assert same(arg4, errPath)
//@   requires@C13 self != nil
//@   requires@C13 GenInv(gen)
//@   ensures@C13 GenInv(gen)
//@   requires@C13 MatchesBasicTargetPointer(source, target)
//@   requires@C13 gen != nil && CallOK(ctx, sourceID, source, target)
//@   ensures err == nil ==> result1 != nil && result1.Code != nil
//@ func BasicTargetPointerRule.Assign(b; gen, ctx, assignTo, sourceID, source, target, errPath)
//@   props C03 C13
//@   propagates
//@   requires@C13 self != nil
//@   requires@C13 GenInv(gen)
//@   ensures@C13 GenInv(gen)
//@   requires@C13 MatchesBasicTargetPointer(source, target)
//@   requires@C13 gen != nil && CallOK(ctx, sourceID, source, target) && AssignOK(assignTo)

//@ func Pointer.Build(p; gen, ctx, sourceID, source, target, errPath)
//@   props C03 C13
//@   at@C03 call gen.Assign#1 assert arg3 == source.PointerInner && arg4 == target.PointerInner
//@   propagates
// C04: the source expression itself is only passed through where that is allowed
//@   ensures@C04 err == nil && result1 == sourceID ==> false
// C07: pointer/underlying steps pass the path on unchanged
//@   at@C07 call gen.Assign#* assert same(arg5, errPath)
//@   at@C11 call BuildByAssign#* assert !(ctx.UseConstructor && ctx.Conf.DefaultUpdate)
//@   at@C11 call buildTargetVar#* assert ctx.UseConstructor && ctx.Conf.DefaultUpdate
// C01/C11: the constructor is offered the method's source as it is (expression and type belong together)
//@   at@C01,C11 call buildTargetVar#1 assert arg2 == sourceID && arg3 == source && arg4 == target
// the source is applied ON TOP of the constructor's result: the assignment is an update of that value
//@   at@C11 call gen.Assign#1 assert arg1 != nil && arg1.Update
//@   requires@C13 self != nil
//@   requires@C13 GenInv(gen)
//@   ensures@C13 GenInv(gen)
//@   requires@C13 MatchesPointer(source, target)
//@   requires@C13 gen != nil && CallOK(ctx, sourceID, source, target)
//@   ensures err == nil ==> result1 != nil && result1.Code != nil
//@ func Pointer.Assign(self; gen, ctx, assignTo, sourceID, source, target, errPath)
//@   props C03 C13
// C03: the nested position is always converted through the generator (method lookup + rules): a position without
// rule at any depth fails the whole method -- it is never skipped or passed through unconverted
//@   ensures@C03,C04 err == nil ==> reached("gen.Build#1")
//@   at@C03 call gen.Build#1 assert arg2 == source.PointerInner && arg3 == target.PointerInner
//@   propagates
// C07: pointer/underlying steps pass the path on unchanged
//@   at@C07 call gen.Build#* assert same(arg4, errPath)
//@   requires@C13 self != nil
//@   requires@C13 GenInv(gen)
//@   ensures@C13 GenInv(gen)
//@   requires@C13 MatchesPointer(source, target)
//@   requires@C13 gen != nil && CallOK(ctx, sourceID, source, target) && AssignOK(assignTo)

//@ func SourcePointer.Build(s; gen, ctx, sourceID, source, target, path)
//@   props C03 C13
//@   at@C03 call gen.Assign#1 assert arg3 == source.PointerInner && arg4 == target
//@   propagates
// C04: the source expression itself is only passed through where that is allowed
//@   ensures@C04 err == nil && result1 == sourceID ==> false
// C07: pointer/underlying steps pass the path on unchanged
//@   at@C07 call gen.Assign#* assert same(arg5, path)
//@   at@C11 call BuildByAssign#* assert !(ctx.UseConstructor && ctx.Conf.DefaultUpdate)
//@   at@C11 call buildTargetVar#* assert ctx.UseConstructor && ctx.Conf.DefaultUpdate
//@   at@C11 call gen.Assign#1 assert arg1 != nil && arg1.Update
//@   requires@C13 self != nil
//@   requires@C13 GenInv(gen)
//@   ensures@C13 GenInv(gen)
//@   requires@C13 MatchesSourcePointer(ctx, source, target)
//@   requires@C13 gen != nil && CallOK(ctx, sourceID, source, target)
//@   ensures err == nil ==> result1 != nil && result1.Code != nil
//@ func SourcePointer.Assign(self; gen, ctx, assignTo, sourceID, source, target, path)
//@   props C03 C13
// C03: the nested position is always converted through the generator (method lookup + rules): a position without
// rule at any depth fails the whole method -- it is never skipped or passed through unconverted
//@   ensures@C03,C04 err == nil ==> reached("gen.Build#1")
//@   at@C03 call gen.Build#1 assert arg2 == source.PointerInner && arg3 == target
//@   propagates
// C07: pointer/underlying steps pass the path on unchanged
//@   at@C07 call gen.Build#* assert same(arg4, path)
//@   requires@C13 self != nil
//@   requires@C13 GenInv(gen)
//@   ensures@C13 GenInv(gen)
//@   requires@C13 MatchesSourcePointer(ctx, source, target)
//@   requires@C13 gen != nil && CallOK(ctx, sourceID, source, target) && AssignOK(assignTo)

//@ func TargetPointer.Build(self; gen, ctx, sourceID, source, target, path)
//@   props C03 C13
// C03: the nested position is always converted through the generator (method lookup + rules): a position without
// rule at any depth fails the whole method -- it is never skipped or passed through unconverted
//@   ensures@C03,C04 err == nil ==> reached("gen.Build#1") || reached("gen.Assign#1")
//@   at@C03 call gen.Build#1 assert arg2 == source && arg3 == target.PointerInner
//@   at@C03 call gen.Assign#1 assert arg3 == source && arg4 == target.PointerInner
//@   propagates
// C04: the source expression itself is only passed through where that is allowed
//@   ensures@C04 err == nil && result1 == sourceID ==> false
// C07: pointer/underlying steps pass the path on unchanged
//@   at@C07 call gen.Build#* assert same(arg4, path)
//@   at@C07 call gen.Assign#* assert same(arg5, path)
//@   at@C11 call gen.Build#* assert !ctx.UseConstructor
//@   at@C11 call buildTargetVar#* assert ctx.UseConstructor
//@   at@C11 call gen.Assign#1 assert arg1 != nil && arg1.Update
//@   requires@C13 self != nil
//@   requires@C13 GenInv(gen)
//@   ensures@C13 GenInv(gen)
//@   requires@C13 MatchesTargetPointer(source, target)
//@   requires@C13 gen != nil && CallOK(ctx, sourceID, source, target)
//@   ensures err == nil ==> result1 != nil && result1.Code != nil
//@ func TargetPointer.Assign(tp; gen, ctx, assignTo, sourceID, source, target, path)
//@   props C03 C13
//@   propagates
//@   requires@C13 self != nil
//@   requires@C13 GenInv(gen)
//@   ensures@C13 GenInv(gen)
//@   requires@C13 MatchesTargetPointer(source, target)
//@   requires@C13 gen != nil && CallOK(ctx, sourceID, source, target) && AssignOK(assignTo)

//@ func Basic.Build(self; gen, ctx, sourceID, source, target, errPath)
//@   props C03 C13
//@   propagates
// C04: the source expression itself is only passed through where that is allowed
//@   ensures@C04 err == nil && result1 == sourceID ==> !source.Named && !target.Named
//@   requires@C13 self != nil
//@   requires@C13 GenInv(gen)
//@   ensures@C13 GenInv(gen)
//@   requires@C13 MatchesBasic(source, target)
//@   requires@C13 gen != nil && CallOK(ctx, sourceID, source, target)
//@   ensures err == nil ==> result1 != nil && result1.Code != nil
//@ func Basic.Assign(b; gen, ctx, assignTo, sourceID, source, target, errPath)
//@   props C03 C13
//@   propagates
//@   requires@C13 self != nil
//@   requires@C13 GenInv(gen)
//@   ensures@C13 GenInv(gen)
//@   requires@C13 MatchesBasic(source, target)
//@   requires@C13 gen != nil && CallOK(ctx, sourceID, source, target) && AssignOK(assignTo)

//@ func Struct.Build(s; gen, ctx, sourceID, source, target, errPath)
//@   props C03 C13
//@   propagates
// C04: the source expression itself is only passed through where that is allowed
//@   ensures@C04 err == nil && result1 == sourceID ==> !source.Named && !target.Named && source.StructType.NumFields() == 0 && target.StructType.NumFields() == 0
//@   requires@C13 self != nil
//@   requires@C13 GenInv(gen)
//@   ensures@C13 GenInv(gen)
//@   requires@C13 MatchesStruct(source, target)
//@   requires@C13 gen != nil && CallOK(ctx, sourceID, source, target)
//@   ensures err == nil ==> result1 != nil && result1.Code != nil
//@ func Struct.Assign(s; gen, ctx, assignTo, sourceID, source, target, errPath)
//@   props C03
//@   propagates
// C04/C03: a field value reaches the target only through the generator (gen.Assign: method lookup + rules, which
// copy) or through the configured custom function (gen.CallMethod) -- never by assigning the source expression
//@   forbid@C04,C03 ToAssignable the struct rule does not assign a source expression itself
//@   loop@C13 1 invariant GenInv(gen)
// C01/C03: a target field is only written when it is accessible from the output package
//@   at@C01 call gen.Assign#1 assert xtype.Accessible(targetField, ctx.OutputPackagePath)
//@   at@C01 call gen.CallMethod#1 assert xtype.Accessible(targetField, ctx.OutputPackagePath)
// C05: ignored fields and (with ignoreUnexported) unexported fields produce no statement
//@   at@C05,C03,C10 call gen.Assign#1 assert !fieldMapping.Ignore && (targetField.Exported() || !ctx.Conf.IgnoreUnexported)
//@   at@C05,C03,C10 call gen.CallMethod#1 assert !fieldMapping.Ignore && (targetField.Exported() || !ctx.Conf.IgnoreUnexported) && arg1 == fieldMapping.Function
//@   at@C05 call mapField#* assert !fieldMapping.Ignore && arg2 == targetField
// C07: every nested conversion of a field gets the path extended by exactly that TARGET field name
//@   at@C07 call gen.Assign#1 assert len(arg5) == len(errPath) + 1 && (forall j int :: 0 <= j && j < len(errPath) ==> arg5[j] == errPath[j])
//@           && dynIs[errElmField](arg5[len(errPath)]) && string(unboxed[errElmField](arg5[len(errPath)])) == targetField.Name()
//@   at@C07 call gen.CallMethod#1 assert len(arg5) == len(errPath) + 1 && (forall j int :: 0 <= j && j < len(errPath) ==> arg5[j] == errPath[j])
//@           && dynIs[errElmField](arg5[len(errPath)]) && string(unboxed[errElmField](arg5[len(errPath)])) == targetField.Name()
//@   at@C07 call mapField#* assert len(arg7) == len(errPath) + 1 && (forall j int :: 0 <= j && j < len(errPath) ==> arg7[j] == errPath[j])
//@           && dynIs[errElmField](arg7[len(errPath)]) && string(unboxed[errElmField](arg7[len(errPath)])) == targetField.Name()
//@   at@C10,C11 call shouldCheckAgainstZero#1 assert arg1 == nextSource && arg2 == targetFieldType && arg3 == assignTo.Update && !arg4
//@   at@C10,C11 call shouldCheckAgainstZero#2 assert arg1 == functionCallSourceType && arg2 == targetFieldType && arg3 == assignTo.Update && arg4
// C10: with the zero-value guard in force, everything the custom function contributes for the field -- its call, the
// error check that may return, and the assignment -- is inside the guard (a zero source value neither writes the
// field nor runs a conversion that can fail)
//@   at@C10 call Block#2 assert seqEq(arg0, callStmt) && len(callStmt) > 0
// C06/C05: the custom function gets the configured source field; the enclosing source pointer only for `map . T | FUNC`
// (the enclosing pointer is only considered -- the assignability question is only asked -- for the source ".")
//@   at@C06,C05 call def.Source.AssignableTo#1 assert fieldMapping.Source == "." && sourceID.ParentPointer != nil
// the guard is only asked about a source that exists (map|FUNC with a FUNC that takes no source has none): F12
//@   at@C10,C13 call shouldCheckAgainstZero#* assert arg1 != nil
//@   requires@C13 self != nil
//@   requires@C13 GenInv(gen)
//@   ensures@C13 GenInv(gen)
//@   requires@C13 MatchesStruct(source, target)
//@   requires@C13 gen != nil && CallOK(ctx, sourceID, source, target) && AssignOK(assignTo)

//@ func List.Build(l; gen, ctx, sourceID, source, target, path)
//@   props C03
//@   propagates
// C03/C04/C07: the slice is converted by List.Assign for the same pair, source expression and path
//@   ensures@C03,C04 err == nil ==> reached("l.Assign#1")
//@   at@C03,C04,C07 call l.Assign#1 assert arg3 == sourceID && arg4 == source && arg5 == target && same(arg6, path)
// C04: the source expression itself is only passed through where that is allowed
//@   ensures@C04 err == nil && result1 == sourceID ==> false
//@   requires@C13 self != nil
//@   requires@C13 GenInv(gen)
//@   ensures@C13 GenInv(gen)
//@   requires@C13 MatchesList(source, target)
//@   requires@C13 gen != nil && CallOK(ctx, sourceID, source, target)
//@   ensures err == nil ==> result1 != nil && result1.Code != nil
//@ func List.Assign(self; gen, ctx, assignTo, sourceID, source, target, path)
//@   props C03
// C03: the nested position is always converted through the generator (method lookup + rules): a position without
// rule at any depth fails the whole method -- it is never skipped or passed through unconverted
//@   ensures@C03,C04 err == nil ==> reached("gen.Assign#1")
//@   at@C03,C04 call gen.Assign#1 assert arg3 == source.ListInner && arg4 == target.ListInner
//@   propagates
// C07: element conversions get the path extended by the index variable of the emitted loop
//@   at@C07 call gen.Assign#1 assert len(arg5) == len(path) + 1 && (forall j int :: 0 <= j && j < len(path) ==> arg5[j] == path[j])
//@           && dynIs[errElmIndex](arg5[len(path)]) && unboxed[errElmIndex](arg5[len(path)]).stmt == jen.Id(index)
//@   requires@C13 self != nil
//@   requires@C13 GenInv(gen)
//@   ensures@C13 GenInv(gen)
//@   requires@C13 MatchesList(source, target)
//@   requires@C13 gen != nil && CallOK(ctx, sourceID, source, target) && AssignOK(assignTo)

//@ func Map.Build(m; gen, ctx, sourceID, source, target, errPath)
//@   props C03 C13
//@   propagates
// C04: the source expression itself is only passed through where that is allowed
//@   ensures@C04 err == nil && result1 == sourceID ==> false
//@   requires@C13 self != nil
//@   requires@C13 GenInv(gen)
//@   ensures@C13 GenInv(gen)
//@   requires@C13 MatchesMap(source, target)
//@   requires@C13 gen != nil && CallOK(ctx, sourceID, source, target)
//@   ensures err == nil ==> result1 != nil && result1.Code != nil
//@ func Map.Assign(self; gen, ctx, assignTo, sourceID, source, target, errPath)
//@   props C03
// C03: the nested position is always converted through the generator (method lookup + rules): a position without
// rule at any depth fails the whole method -- it is never skipped or passed through unconverted
//@   ensures@C03,C04 err == nil ==> reached("gen.Build#1") && reached("gen.Assign#1")
//@   at@C03,C04 call gen.Build#1 assert arg2 == source.MapKey && arg3 == target.MapKey
//@   at@C03,C04 call gen.Assign#1 assert arg3 == source.MapValue && arg4 == target.MapValue
// C11/C03: every key gets an entry -- the value is always built and assigned (never left out for a nil or zero source
// value), into the target map indexed by the converted key
//@   at@C11,C03 call gen.Assign#1 assert arg1 != nil && arg1.Must && !arg1.Update
//@   propagates
// C07: key and value conversions get the path extended by the range key variable of the emitted loop
//@   at@C07 call gen.Build#1 assert len(arg4) == len(old(errPath)) + 1 && (forall j int :: 0 <= j && j < len(old(errPath)) ==> arg4[j] == old(errPath)[j])
//@           && dynIs[errElmKey](arg4[len(old(errPath))]) && unboxed[errElmKey](arg4[len(old(errPath))]).stmt == jen.Id(key)
//@   at@C07 call gen.Assign#1 assert len(arg5) == len(old(errPath)) + 1 && (forall j int :: 0 <= j && j < len(old(errPath)) ==> arg5[j] == old(errPath)[j])
//@           && dynIs[errElmKey](arg5[len(old(errPath))]) && unboxed[errElmKey](arg5[len(old(errPath))]).stmt == jen.Id(key)
//@   requires@C13 self != nil
//@   requires@C13 GenInv(gen)
//@   ensures@C13 GenInv(gen)
//@   requires@C13 MatchesMap(source, target)
//@   requires@C13 gen != nil && CallOK(ctx, sourceID, source, target) && AssignOK(assignTo)

// ---- C03/C05: a target field may only be skipped for a missing (never for an ambiguous) source ----
//@ func mapField(gen, ctx, targetField, sourceID, source, target, additionalFieldSources, errPath)
//@   props C03 C05
//@   propagates
//@   errignorable result4
//@   requires@C13 gen != nil && GenInv(gen) && CallOK(ctx, sourceID, source, target) && targetField != nil
//@   ensures@C13 GenInv(gen)
//@   ensures result4 ==> ctx.Conf.IgnoreMissing && err != nil
//@   ensures@C13 err == nil ==> result0 != nil && result0.Code != nil && result1 != nil
//@   loop@C13 1 invariant nextIDCode != nil && nextSource != nil
//@   at call NewError#1 assert skip ==> ctx.Conf.IgnoreMissing && dynIs[*xtype.NoMatchError](err)
// C01 (F5): a source FIELD on a mapping path is only read when it is accessible from the output package
//@   at@C01,C03 call Dot#1 assert !dynIs[*types.Var](sourceMatch.Obj) || xtype.Accessible(sourceMatch.Obj, ctx.OutputPackagePath)
// C01/C14: a struct method or func field used as a source is parsed with "no source", against the OUTPUT package
// (an unexported method of another package is rejected), and is called on the resolved source expression
//@   at@C01,C14 call method.Parse#1 assert arg0 == types.Object(nextSource.FuncType) && arg1.OutputPackagePath == ctx.OutputPackagePath && arg1.Params == method.ParamsNone
//@           && arg1.Converter == nil && !arg1.AllowTypeParams && !arg1.Generated && arg1.CustomCall == nextIDCode

//@ func parseAutoMap(ctx, source)
//@   props C03 C05 C13
//@   propagates
//@   requires@C13 MethodOK(ctx) && source != nil && source.Struct && xtype.TypeFieldsOK(source)
//@   loop@C13 2 invariant innerSource != nil && innerSource.Struct && xtype.TypeFieldsOK(innerSource)

//@ func MethodContext.Field(ctx; target, name)
//@   props C05 C13
//@   pure
//@   requires@C13 MethodOK(ctx) && target != nil
//@   ensures ctx.FieldsTarget != target.String ==> result == emptyMapping
//@   ensures ctx.FieldsTarget == target.String && has(ctx.Conf.Fields, name) ==> result == ctx.Conf.Fields[name]
//@   ensures ctx.FieldsTarget == target.String && !has(ctx.Conf.Fields, name) ==> result == emptyMapping

//@ func MethodContext.DefinedFields(ctx; target)
//@   props C05 C09 C13
//@   requires@C13 MethodOK(ctx) && target != nil
//@   assigns nothing
//@   ensures result != nil
//@   ensures ctx.FieldsTarget != target.String ==> (forall k string :: !has(result, k))
//@   ensures ctx.FieldsTarget == target.String ==> (forall k string :: has(result, k) == has(ctx.Conf.Fields, k))
//@   ensures ctx.FieldsTarget == target.String ==> isFresh(result)
//@   loop 1 invariant forall k string :: has(f, k) == has(seen, k)
//@   loop 1 invariant same(keys(ctx.Conf.Fields), old(keys(ctx.Conf.Fields))) && isFresh(f)

//@ func MethodContext.HasSeen(ctx; source)
//@   props C13
//@   pure
//@   requires@C13 ctx != nil && source != nil
//@   ensures result == (source.Named && has(ctx.SeenNamed, source.NamedType.String()))

//@ func MethodContext.MarkSeen(ctx; source)
//@   props C13
//@   requires@C13 ctx != nil && source != nil && ctx.SeenNamed != nil
//@   assigns map(ctx.SeenNamed)

//@ func enumTargetMismatchError(targetEnum, sourceName, targetName, previous, sourceValue)
//@   props C13

//@ func space(l)
//@   props C13

// ---- C08: what is emitted for one switch case ----
// @ignore leaves the zero value (a comment), @panic panics, @error returns an error through the method's error
// result (refused when the explicit method has none), any other @action is invalid; a member name must exist on
// the target enum ("some source member has no such target" is an error) and is assigned qualified by the
// target type's package.
//@ func caseAction(gen, ctx, nameVar, target, targetEnum, targetName, sourceID, errPath)
//@   props C08 C03
//@   propagates
//@   ensures targetName == "@ignore" ==> err == nil && result == jen.Code(jen.Comment("ignored"))
//@   ensures targetName == "@panic" ==> err == nil && result == jen.Code(jen.Panic(jen.Qual("fmt", "Sprintf").Call(jen.Lit("unexpected enum element: %v"), sourceID.Code.Clone())))
//@   ensures targetName == "@error" && err == nil ==> result != nil
//@   at call gen.ReturnError#1 assert arg0 == ctx && same(arg1, errPath) && targetName == "@error"
//@   ensures strings.HasPrefix(targetName, "@") && targetName != "@ignore" && targetName != "@panic" && targetName != "@error" ==> err != nil
//@   ensures !strings.HasPrefix(targetName, "@") ==> (err == nil) == has(targetEnum.Members, targetName)
//@   ensures !strings.HasPrefix(targetName, "@") && err == nil ==> result == jen.Code(nameVar.Clone().Op("=").Add(jen.Qual(target.NamedType.Obj().Pkg().Path(), targetName)))

// equal source values must agree on the target (value or action)
//@ func enumTargetMismatches(previous, targetEnum, targetName)
//@   props C08
//@   pure
//@   ensures !strings.HasPrefix(targetName, "@") && !strings.HasPrefix(previous.Target, "@") ==> result == (targetEnum.Members[previous.Target] != targetEnum.Members[targetName])
//@   ensures strings.HasPrefix(targetName, "@") || strings.HasPrefix(previous.Target, "@") ==> result == (targetName != previous.Target)

// C08: the mappings of ALL configured transformers are merged (a later one overrides an earlier one per key);
// a failing or empty transformer fails generation
//@ func executeTransformers(transformers, source, target, sourceEnum, targetEnum)
//@   props C08 C03
//@   propagates
//@   loop@C08 2 invariant forall k string :: has(seen, k) ==> has(transformerMapping, k)
