//go:build verif

package builder

// Contracts for package builder (comment-only; checked by /verif/engine).

//@ pred matchesBasic(s *xtype.Type, t *xtype.Type) bool = s.Basic && t.Basic && s.BasicType.Kind() == t.BasicType.Kind()

//@ func Basic.Matches
//@   props C03 C11
//@   pure
//@   requires source != nil && target != nil
//@   ensures result == matchesBasic(source, target)
