//go:build verif

package comments

// Contracts for package comments (comment-only; checked by /verif/engine).

// ---- C19: a declaration is a converter / variables block exactly when its attached doc comment contains
// ---- the marker; a marker on the wrong kind of declaration is an error; every method/variable gets the
// ---- setting lines of ITS OWN doc comment ----
// how many of the first n specs of a declaration carry the converter marker in their OWN doc comment
// (definitional axioms of a ghost function, not assumptions about code)
//@ pred MarkedSpec(s ast.Spec) bool = dynIs[*ast.TypeSpec](s) && strings.Contains(parse.CommentToString(unboxed[*ast.TypeSpec](s).Doc), "goverter:converter")
//@ ghost MarkedCount(specs []ast.Spec, n int) int
//@ axiom forall specs []ast.Spec :: MarkedCount(specs, 0) == 0
//@ axiom forall specs []ast.Spec, n int :: n >= 0 ==> MarkedCount(specs, n+1) == MarkedCount(specs, n) + ite(MarkedSpec(specs[n]), 1, 0)

//@ func parseGenDecl(fset, pkg, decl)
//@   props C19 C13
// without a marker on the declaration itself, exactly the specs marked in their own doc comment become converters
// (whatever kind of declaration it is, grouped or not, documented or not)
//@   loop 1 invariant len(converters) == MarkedCount(decl.Specs, idx)
//@   ensures !strings.Contains(parse.CommentToString(decl.Doc), "goverter:variables") && !strings.Contains(parse.CommentToString(decl.Doc), "goverter:converter") && err == nil
//@           ==> len(result) == MarkedCount(decl.Specs, len(decl.Specs))
//@   propagates
//@   requires@C13 decl != nil && fset != nil && pkg != nil
//@   at call parseFunctions#1 assert strings.Contains(parse.CommentToString(decl.Doc), "goverter:variables") && arg3 == parse.CommentToString(decl.Doc)
//@   at call parseInterface#1 assert strings.Contains(parse.CommentToString(decl.Doc), "goverter:converter") && decl.Tok == token.TYPE && arg3 == parse.CommentToString(decl.Doc)
//@   at call parseInterface#2 assert strings.Contains(parse.CommentToString(typeSpec.Doc), "goverter:converter") && arg3 == parse.CommentToString(typeSpec.Doc) && arg2 == typeSpec
//@   ensures strings.Contains(parse.CommentToString(decl.Doc), "goverter:variables") && err == nil ==> len(result) == 1
//@   ensures !strings.Contains(parse.CommentToString(decl.Doc), "goverter:variables") && strings.Contains(parse.CommentToString(decl.Doc), "goverter:converter") && decl.Tok != token.TYPE ==> err != nil
//@   ensures !strings.Contains(parse.CommentToString(decl.Doc), "goverter:variables") && strings.Contains(parse.CommentToString(decl.Doc), "goverter:converter") && err == nil ==> len(result) == 1

//@ func parseFunctions(fset, pkg, decl, comments)
//@   props C19
//@   requires@C13 decl != nil && fset != nil && pkg != nil
//@   ensures decl.Tok != token.VAR ==> err != nil
//@   ensures err == nil ==> len(result) == 1
//@   at call parseRawLines#1 assert arg1 == comments
//@   at call parseRawLines#2 assert arg1 == parse.CommentToString(value.Doc)

//@ func parseInterface(fset, pkg, typeSpec, declDocs)
//@   props C19
//@   propagates
//@   requires@C13 typeSpec != nil && fset != nil && pkg != nil
//@   ensures !dynIs[*ast.InterfaceType](typeSpec.Type) ==> err != nil
//@   at call parseRawLines#1 assert arg1 == declDocs

//@ func parseInterfaceMethods(location, inter)
//@   props C19
//@   requires@C13 inter != nil && inter.Methods != nil && location != nil
//@   at call parseRawLines#1 assert arg1 == parse.CommentToString(method.Doc)

//@ func parseRawLines(location, comment)
//@   props C19
//@   ensures result.Location == location && same(result.Lines, parse.SettingLines(comment))

// ---- C16: packages are loaded with -tags <BuildTags> iff build tags are configured ----
//@ func ParseDocs(c)
//@   props C16 C19
//@   propagates
// C09 (F15): the loaded packages are handled in the order of their import paths, not in the order the patterns were
// given (which converter's diagnostic is reported first must not depend on it)
//@   at@C09 call sort.Slice#1 assert same(arg0, pkgs)
//@   at@C09 call parseGenDecl#1 assert reached("sort.Slice#1")
// C17/C13: a package that could not be loaded ends the run with its diagnostic -- none is skipped
// (the first thing looked at for every package is its list of load errors)
//@   at@C17,C13 call len#1 assert same(arg0, pkg.Errors)
//@   loop@C17,C13 1 invariant idx > 0 ==> reached("len#1")
// C19: every file of every loaded package is scanned, and every general declaration in it is looked at (a converter
// is a converter wherever its declaration stands: no file or declaration is skipped)
//@   loop@C19 1 invariant idx > 0 ==> reached("loop#2")
//@   loop@C19 2 invariant idx > 0 ==> reached("loop#3")
//@   loop@C19 3 invariant idx > 0 && dynIs[*ast.GenDecl](file.Decls[idx-1]) ==> reached("parseGenDecl#1")
//@   at@C16 call packages.Load#1 assert arg0.Dir == c.WorkingDir && ite(c.BuildTags != "", len(arg0.BuildFlags) == 2 && arg0.BuildFlags[0] == "-tags" && arg0.BuildFlags[1] == c.BuildTags, len(arg0.BuildFlags) == 0)
