//go:build verif

package namer

// Contracts for package namer (comment-only; checked by /verif/engine).
// Abstract view of a Namer: used(m) = the key set of m.lookup. Every name handed out is fresh and is added;
// nothing else changes. Two results of one namer are therefore never equal (C01: no emitted identifier is
// declared twice inside a method body / among the generated methods of one output file).

//@ func New()
//@   props C01
//@   ensures result != nil && isFresh(result) && result.lookup != nil
//@   ensures forall k string :: has(result.lookup, k) == (k == "c")

//@ func Namer.Register(m; name)
//@   props C01 C13
//@   requires@C13 m != nil && m.lookup != nil
//@   assigns m.First, map(m.lookup)
//@   ensures result == !old(has(m.lookup, name))
//@   ensures forall k string :: has(m.lookup, k) == (old(has(m.lookup, k)) || k == name)

//@ func Namer.Name(m; name)
//@   props C01 C13
//@   requires@C13 m != nil && m.lookup != nil
//@   assigns m.First, map(m.lookup)
//@   ensures !old(has(m.lookup, result))
//@   ensures forall k string :: has(m.lookup, k) == (old(has(m.lookup, k)) || k == result)
//@   ensures result == name || (exists i int :: i >= 2 && result == name + fmt.Sprint(i))
//@   loop 1 invariant i >= 1 && (forall k string :: has(m.lookup, k) == old(has(m.lookup, k)))

//@ func Namer.Index(m; )
//@   props C01 C13
//@   requires@C13 m != nil && m.lookup != nil
//@   assigns m.First, map(m.lookup)
//@   ensures !old(has(m.lookup, result))
//@   ensures forall k string :: has(m.lookup, k) == (old(has(m.lookup, k)) || k == result)
//@   loop 1 invariant i >= 1 && (forall k string :: has(m.lookup, k) == old(has(m.lookup, k)))
//@   loop 2 invariant forall k string :: has(m.lookup, k) == old(has(m.lookup, k))

//@ func Namer.Map(m; )
//@   props C01 C13
//@   requires@C13 m != nil && m.lookup != nil
//@   assigns map(m.lookup)
//@   ensures !old(has(m.lookup, result0)) && !old(has(m.lookup, result1)) && result0 != result1
//@   ensures forall k string :: has(m.lookup, k) == (old(has(m.lookup, k)) || k == result0 || k == result1)
//@   loop 1 invariant i >= 0 && (forall k string :: has(m.lookup, k) == old(has(m.lookup, k)))
