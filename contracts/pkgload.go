//go:build verif

package pkgload

// Contracts for package pkgload (comment-only; checked by /verif/engine).

// ---- C16: packages are loaded with -tags <buildTags> iff build tags are configured ----
//@ func PackageLoader.load
//@   props C16
//@   propagates
//@   requires@C13 g != nil && g.lookup != nil
//@   at@C16 call packages.Load#1 assert arg0.Dir == workDir && ite(buildTags != "", len(arg0.BuildFlags) == 2 && arg0.BuildFlags[0] == "-tags" && arg0.BuildFlags[1] == buildTags, len(arg0.BuildFlags) == 0)

//@ func New
//@   props C13

//@ func ParseMethodString
//@   props C13
