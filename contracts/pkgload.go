//go:build verif

package pkgload

// Contracts for package pkgload (comment-only; checked by /verif/engine).

// ---- C16: packages are loaded with -tags <buildTags> iff build tags are configured ----
//@ func PackageLoader.load
//@   props C16
//@   propagates
//@   requires@C13 g != nil && g.lookup != nil
//@   at@C16 call packages.Load#1 assert arg0.Dir == workDir && ite(buildTags != "", len(arg0.BuildFlags) == 2 && arg0.BuildFlags[0] == "-tags" && arg0.BuildFlags[1] == buildTags, len(arg0.BuildFlags) == 0)

//@ func New
//@   props C13

//@ func ParseMethodString
//@   props C13

// ---- C14: the context parameters of a function are exactly the `context NAME` settings of that
// ---- function's own doc comment (nothing leaks from another declaration of the file or package) ----
//@ func PackageLoader.localConfig
//@   props C14
//@   loop 3 invariant forall k string :: has(contexts, k) ==> parse.DeclaresContext(lines, k)
//@   loop 3 invariant forall j int :: 0 <= j && j < idx && parse.IsContextLine(lines[j]) ==> has(contexts, parse.ContextName(lines[j]))
//@   assigns map(g.locals)

// ---- C14: the per-use parse options reach method.Parse unchanged, together with the local options of
// ---- exactly the function that is being parsed; nothing but the loader's own cache is written ----
//@ func PackageLoader.getOneParsed
//@   props C14
//@   propagates
//@   assigns map(g.locals)
//@   at@C14 call method.Parse#1 assert arg0 == obj && arg1 == opts
//@   at@C14 call g.localConfig#1 assert arg0 == pkg && arg1 == name

//@ func PackageLoader.GetOne
//@   props C14
//@   propagates
//@   assigns map(g.locals)
//@   at@C14 call g.getOneParsed#1 assert arg2 == opts

//@ func PackageLoader.GetOneRaw
//@   props C14
//@   assigns nothing
//@   ensures err == nil ==> result1 != nil

//@ func PackageLoader.getPkg
//@   assigns nothing

//@ func PackageLoader.GetUncheckedPkg
//@   pure
