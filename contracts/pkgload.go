//go:build verif

package pkgload

// Contracts for package pkgload (comment-only; checked by /verif/engine).

// ---- C16: packages are loaded with -tags <buildTags> iff build tags are configured ----
//@ func PackageLoader.load(g; workDir, buildTags, paths)
//@   props C16
//@   propagates
//@   requires@C13 g != nil && g.lookup != nil
//@   at@C16 call packages.Load#1 assert arg0.Dir == workDir && ite(buildTags != "", len(arg0.BuildFlags) == 2 && arg0.BuildFlags[0] == "-tags" && arg0.BuildFlags[1] == buildTags, len(arg0.BuildFlags) == 0)

//@ func New(workDir, buildTags, paths)
//@   props C13

//@ func ParseMethodString(sourcePackage, fullMethod)
//@   props C13

// ---- C14: the context parameters of a function are exactly the `context NAME` settings of that
// ---- function's own doc comment (nothing leaks from another declaration of the file or package) ----
//@ func PackageLoader.localConfig(g; pkg, name)
//@   props C14 C19 C06 C09
//@   loop 3 invariant forall k string :: has(contexts, k) ==> parse.DeclaresContext(lines, k)
//@   loop 3 invariant forall j int :: 0 <= j && j < idx && parse.IsContextLine(lines[j]) ==> has(contexts, parse.ContextName(lines[j]))
//@   loop 1 invariant forall k string :: has(g.locals, k) == old(has(g.locals, k))
//@   loop 2 invariant forall k string :: has(g.locals, k) == old(has(g.locals, k))
//@   loop 3 invariant forall k string :: has(g.locals, k) == old(has(g.locals, k))
//@   assigns map(g.locals)
// the per-package cache is keyed by the package PATH (two packages may share a name)
//@   ensures has(g.locals, pkg.PkgPath)
//@   ensures old(has(g.locals, pkg.PkgPath)) && old(has(g.locals[pkg.PkgPath], name)) ==> same(result, old(g.locals[pkg.PkgPath][name]))
//@   ensures old(has(g.locals, pkg.PkgPath)) && !old(has(g.locals[pkg.PkgPath], name)) ==> same(result, method.EmptyLocalOpts)
//@   ensures forall k string :: k != pkg.PkgPath ==> has(g.locals, k) == old(has(g.locals, k))

// ---- C14: the per-use parse options reach method.Parse unchanged, together with the local options of
// ---- exactly the function that is being parsed; nothing but the loader's own cache is written ----
//@ func PackageLoader.getOneParsed(g; pkgName, name, opts)
//@   props C14
//@   propagates
//@   assigns map(g.locals)
//@   at@C14 call method.Parse#1 assert arg0 == obj && arg1 == opts
//@   at@C14 call g.localConfig#1 assert arg0 == pkg && arg1 == name

//@ func PackageLoader.GetOne(g; sourcePackage, fullMethod, opts)
//@   props C14
//@   propagates
//@   assigns map(g.locals)
//@   at@C14 call g.getOneParsed#1 assert arg2 == opts

//@ func PackageLoader.GetOneRaw(g; pkgName, name)
//@   props C14
//@   assigns nothing
//@   ensures err == nil ==> result1 != nil

//@ func PackageLoader.getPkg(g; pkgName)
//@   assigns nothing

// C15: the package that exists at the output location is reported as loaded, whether or not it type-checks (its NAME
// decides the package clause; it usually does not compile before the output is regenerated)
//@ func PackageLoader.GetUncheckedPkg(g; pkgName)
//@   props C15
//@   pure
//@   ensures result == g.lookup[pkgName]

// C06/C14: for a pattern, every matching function is parsed with the per-use options and with the local
// settings of THAT function (looked up under the name the object was looked up with)
//@ func PackageLoader.GetMatching(g; cwd, fullMethod, opts)
//@   props C06 C14
//@   errdrop method.Parse#1 documented behaviour of patterns: functions that match the name pattern but are no conversion functions are skipped (an empty result is an error)
//@   assigns map(g.locals)
//@   at@C06,C14,C19 call g.localConfig#1 assert arg0 == pkg && obj == scope.Lookup(arg1)
//@   at@C14 call method.Parse#1 assert arg1 == opts
// a pattern selects a function only when it matches the WHOLE name
//@   at@C06,C14 call method.Parse#1 assert len(loc) == 2 && loc[0] == 0 && loc[1] == len(name)
//@   at@C14 call g.getOneParsed#1 assert arg2 == opts && arg1 == name
