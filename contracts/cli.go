//go:build verif

package cli

// Contracts for package cli (comment-only; checked by /verif/engine).

// Parse returns exactly one of: an error, *Help, *Generate, *Version
//@ func Parse(args)
//@   props C17 C13
//@   errdrop fs.Parse#1 -h / --help is reported by the flag package as the error flag.ErrHelp: it becomes the Help command (exit 0), every other error is returned as usage error
//@   ensures err != nil ==> result == nil
//@   ensures err == nil ==> result != nil && (dynIs[*Help](result) || dynIs[*Generate](result) || dynIs[*Version](result))
//@   ensures len(args) == 0 ==> err != nil
//@   ensures err == nil && dynIs[*Generate](result) ==> unboxed[*Generate](result).Config != nil && unboxed[*Generate](result).Config.EnumTransformers != nil

// CLI defaults: -build-tags goverter, -output-constraint !goverter; every -g/-global value becomes a global line
//@ func parseGen(cmd, args)
//@   props C17 C16 C12 C13
//@   errdrop fs.Parse#1 -h / --help is reported by the flag package as the error flag.ErrHelp: it becomes the Help command (exit 0), every other error is returned as usage error
//@   at@C16 call fs.String#1 assert arg0 == "build-tags" && arg1 == "goverter"
//@   at@C16 call fs.String#2 assert arg0 == "output-constraint" && arg1 == "!goverter"
// C17: gen without a PATTERN is a usage error, whatever options precede it
//@   ensures@C17 err == nil && dynIs[*Generate](result) ==> len(unboxed[*Generate](result).Config.PackagePatterns) > 0
// C16/C12: the option values are handed on as given
//@   at@C16 return assert err == nil && dynIs[*Generate](result0) ==> unboxed[*Generate](result0).Config.OutputBuildConstraint == *outputConstraint
//@           && unboxed[*Generate](result0).Config.BuildTags == *buildTags && unboxed[*Generate](result0).Config.WorkingDir == *cwd
//@   ensures err != nil ==> result == nil
//@   ensures err == nil ==> result != nil && (dynIs[*Help](result) || dynIs[*Generate](result))
//@   ensures err == nil && dynIs[*Generate](result) ==> unboxed[*Generate](result).Config != nil && unboxed[*Generate](result).Config.EnumTransformers != nil

//@ func usageErr(err, cmd)
//@   props C17
//@   ensures result != nil

// exit status: usage error -> stderr + exit 1; help -> exit 0; generation error -> stderr + exit 1; otherwise normal return
//@ func Run(args, opts)
//@   props C17 C13 C16
// the configuration that was parsed from the command line (build tags, output constraint, patterns, -g lines,
// working directory) is what generation runs with
//@   at@C16 call goverter.GenerateConverters#1 assert arg0 != nil && arg0.OutputBuildConstraint == cmd.Config.OutputBuildConstraint && arg0.BuildTags == cmd.Config.BuildTags
//@           && arg0.WorkingDir == cmd.Config.WorkingDir && same(arg0.PackagePatterns, cmd.Config.PackagePatterns) && same(arg0.Global, cmd.Config.Global)
//@   ensures true
//@   at call os.Exit#1 assert err != nil
//@   at call os.Exit#2 assert err == nil
//@   at call os.Exit#3 assert err != nil
//@   at return assert err == nil

// C12: every -g / -global value is kept, in the order given (the lines are applied in that order: the last one wins)
//@ func Strings.Set(s; value)
//@   props C12
//@   ensures err == nil && len(*s) == old(len(*s)) + 1 && (*s)[len(*s)-1] == value
//@   ensures forall j int :: 0 <= j && j < old(len(*s)) ==> (*s)[j] == old((*s)[j])
