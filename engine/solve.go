package main

// Discharging obligations with the installed SMT solvers.

import (
	"context"
	"fmt"
	"os"
	"os/exec"
	"path/filepath"
	"strings"
	"sync"
	"time"
)

type SolverCfg struct {
	OutDir    string
	TimeoutS  int
	Parallel  int
	CrossCheck bool // thorough: all solvers that answer must agree
}

// first a pure E-matching pass (fast, incomplete), then the complete configurations
var solverCmds = [][]string{
	{"z3-new", "-smt2", "smt.mbqi=false"},
	{"z3-new", "-smt2"},
	{"cvc5", "--incremental", "--lang=smt2", "--force-logic=ALL", "--strings-exp"},
	{"z3", "-smt2"},
}

func solverName(cmd []string) string {
	if len(cmd) > 2 && cmd[2] == "smt.mbqi=false" {
		return cmd[0] + "(ematching)"
	}
	return cmd[0]
}

func writeSMT(path string, reg *Registry, insts []ObInstance, withModel bool, only int) error {
	var b strings.Builder
	b.WriteString(reg.prelude())
	for i, in := range insts {
		if only >= 0 && i != only {
			continue
		}
		b.WriteString("(push 1)\n")
		for _, f := range in.PC {
			b.WriteString("(assert " + f + ")\n")
		}
		b.WriteString("(assert (not " + in.Goal + "))\n")
		b.WriteString("(check-sat)\n")
		if withModel {
			b.WriteString("(get-model)\n")
		}
		b.WriteString("(pop 1)\n")
	}
	return os.WriteFile(path, []byte(b.String()), 0o644)
}

func runSolver(cmd []string, file string, timeoutS int) (answers []string, raw string, dur float64) {
	ctx, cancel := context.WithTimeout(context.Background(), time.Duration(timeoutS+2)*time.Second)
	defer cancel()
	args := append([]string{}, cmd[1:]...)
	// the time limit applies to each check-sat; the process as a whole gets a proportionally larger budget
	n := countChecks(file)
	overall := timeoutS * n
	if overall > 8*timeoutS {
		overall = 8 * timeoutS
	}
	if overall < timeoutS {
		overall = timeoutS
	}
	switch cmd[0] {
	case "z3", "z3-new":
		args = append(args, fmt.Sprintf("-t:%d", timeoutS*1000), fmt.Sprintf("-T:%d", overall))
	case "cvc5":
		args = append(args, fmt.Sprintf("--tlimit-per=%d", timeoutS*1000), fmt.Sprintf("--tlimit=%d", overall*1000))
	}
	ctx2, cancel2 := context.WithTimeout(context.Background(), time.Duration(overall+2)*time.Second)
	defer cancel2()
	ctx = ctx2
	args = append(args, file)
	start := time.Now()
	c := exec.CommandContext(ctx, cmd[0], args...)
	out, _ := c.CombinedOutput()
	dur = time.Since(start).Seconds()
	raw = string(out)
	for _, l := range strings.Split(raw, "\n") {
		l = strings.TrimSpace(l)
		switch l {
		case "sat", "unsat", "unknown", "timeout":
			answers = append(answers, l)
		}
	}
	return
}

// solveObligation decides one obligation (all its path instances).
func solveObligation(o *Obligation, reg *Registry, cfg *SolverCfg) {
	if len(o.Instances) == 0 {
		o.Status = "discharged"
		o.Solver = "trivial"
		return
	}
	// trivial instances
	allTrivial := true
	for _, in := range o.Instances {
		if in.Goal != "true" {
			allTrivial = false
		}
	}
	if allTrivial && o.Expect == "unsat" {
		o.Status = "discharged"
		o.Solver = "trivial(goal simplified to true)"
		return
	}
	file := filepath.Join(cfg.OutDir, sanitize(o.Name)+".smt2")
	o.SMTFile = file
	if err := writeSMT(file, reg, o.Instances, false, -1); err != nil {
		o.Status = "undecided"
		o.Output = err.Error()
		return
	}
	n := len(o.Instances)
	final := make([]string, n) // per instance: unsat / sat / ""
	solverUsed := ""
	var total float64
	var outputs []string
	note := func(name string) {
		if !strings.Contains(solverUsed, name) {
			if solverUsed != "" {
				solverUsed += "+"
			}
			solverUsed += name
		}
	}
	// stage 1: E-matching only (fast); a quick satisfiability probe for cover obligations
	{
		cmd := solverCmds[0]
		to := cfg.TimeoutS
		if o.Expect == "sat" {
			to = 2
		}
		ans, raw, dur := runSolver(cmd, file, to)
		total += dur
		if strings.Contains(raw, "(error ") && !strings.Contains(raw, "model is not available") {
			o.Status = "engine-error"
			o.Output = fmt.Sprintf("[%s] %s", solverName(cmd), firstLines(raw, 4))
			return
		}
		outputs = append(outputs, fmt.Sprintf("[%s %.2fs] %s", solverName(cmd), dur, firstLines(raw, 6)))
		for i := 0; i < n && i < len(ans); i++ {
			if ans[i] == "sat" || ans[i] == "unsat" {
				final[i] = ans[i]
				note(solverName(cmd))
			}
		}
	}
	// stage 2: the complete configurations race on the instances that are still open
	var open []int
	for i := 0; i < n; i++ {
		if final[i] == "" {
			open = append(open, i)
		}
	}
	if cfg.CrossCheck && o.Expect != "sat" {
		// thorough tier: every instance is also given to the other solver configurations; whatever they answer
		// within the budget must agree with the first answer
		open = open[:0]
		for i := 0; i < n; i++ {
			open = append(open, i)
		}
	}
	if len(open) > 0 && o.Expect != "sat" {
		runFile := filepath.Join(cfg.OutDir, sanitize(o.Name)+".open.smt2")
		var sub []ObInstance
		for _, i := range open {
			sub = append(sub, o.Instances[i])
		}
		if err := writeSMT(runFile, reg, sub, false, -1); err == nil {
			type res struct {
				name string
				ans  []string
				raw  string
				dur  float64
			}
			ch := make(chan res, len(solverCmds))
			for _, cmd := range solverCmds[1:] {
				go func(cmd []string) {
					to := cfg.TimeoutS
					if cfg.CrossCheck && to > 20 {
						to = 20
					}
					ans, raw, dur := runSolver(cmd, runFile, to)
					if strings.Contains(raw, "rror") && !strings.Contains(raw, "model is not available") {
						ans = nil // a solver that rejects the query gives no answers
					}
					ch <- res{solverName(cmd), ans, raw, dur}
				}(cmd)
			}
			var maxDur float64
			disagree := false
			for range solverCmds[1:] {
				r := <-ch
				if r.dur > maxDur {
					maxDur = r.dur
				}
				outputs = append(outputs, fmt.Sprintf("[%s %.2fs] %s", r.name, r.dur, firstLines(r.raw, 6)))
				for k, i := range open {
					if k >= len(r.ans) || (r.ans[k] != "sat" && r.ans[k] != "unsat") {
						continue
					}
					if final[i] == "" {
						final[i] = r.ans[k]
						note(r.name)
					} else if final[i] != r.ans[k] {
						disagree = true
					}
				}
				allDone := true
				for _, i := range open {
					if final[i] == "" {
						allDone = false
					}
				}
				if allDone && !cfg.CrossCheck {
					break
				}
			}
			total += maxDur
			if disagree {
				o.Status = "undecided"
				o.Output = "solvers disagree: " + strings.Join(outputs, " | ")
				o.TimeS = total
				return
			}
		}
	}
	o.TimeS = total
	o.Solver = solverUsed
	o.Output = strings.Join(outputs, " | ")
	if o.Expect == "sat" {
		// cover: some instance must be satisfiable (unknown counts as not refuted)
		allUnsat := true
		for i := 0; i < n; i++ {
			if final[i] != "unsat" {
				allUnsat = false
			}
		}
		if allUnsat {
			o.Status = "cover-failed"
		} else {
			o.Status = "cover-ok"
		}
		return
	}
	for i := 0; i < n; i++ {
		if final[i] == "sat" {
			o.Status = "failed"
			o.FailInst = i
			// fetch a model
			mfile := filepath.Join(cfg.OutDir, sanitize(o.Name)+".model.smt2")
			if err := writeSMT(mfile, reg, o.Instances, true, i); err == nil {
				_, raw, _ := runSolver(solverCmds[0], mfile, cfg.TimeoutS)
				o.Model = raw
			}
			return
		}
	}
	for i := 0; i < n; i++ {
		if final[i] == "" {
			o.Status = "undecided"
			o.FailInst = i
			return
		}
	}
	o.Status = "discharged"
	if vacuityProbe || cfg.CrossCheck {
		vac := probeVacuity(o, reg, cfg)
		// thorough tier: an obligation that stems from a contract clause and all of whose path instances have
		// contradictory premises has been "proved" from nothing (an inconsistent assumption upstream): not accepted.
		// (For "this panic / this site is unreachable" obligations contradictory premises are the proof itself.)
		if vac && cfg.CrossCheck {
			switch o.Kind {
			case "post", "assert", "inv-init", "inv-keep", "lemma":
				if o.Clause == nil || o.Clause.Kind != "forbid" {
					o.Status = "undecided"
					o.Output += " | vacuity: every path instance of this obligation has unsatisfiable premises"
				}
			}
		}
	}
}

// vacuityProbe (diagnostic): after an obligation is discharged, are the premises of at least one of its
// path instances satisfiable? (an infeasible path is normal; an obligation with only infeasible paths is suspicious)
var vacuityProbe bool

func probeVacuity(o *Obligation, reg *Registry, cfg *SolverCfg) bool {
	var b strings.Builder
	b.WriteString(reg.prelude())
	for _, in := range o.Instances {
		b.WriteString("(push 1)\n")
		for _, f := range in.PC {
			b.WriteString("(assert " + f + ")\n")
		}
		b.WriteString("(check-sat)\n(pop 1)\n")
	}
	file := filepath.Join(cfg.OutDir, sanitize(o.Name)+".vacuity.smt2")
	if os.WriteFile(file, []byte(b.String()), 0o644) != nil {
		return false
	}
	ans, _, _ := runSolver(solverCmds[0], file, 3)
	all := len(ans) == len(o.Instances) && len(ans) > 0
	for _, a := range ans {
		if a != "unsat" {
			all = false
		}
	}
	if all && vacuityProbe {
		fmt.Printf("VACUOUS? %s (%d instances, all premises unsat) %s\n", o.Name, len(o.Instances), file)
	}
	return all
}

func firstLines(s string, n int) string {
	ls := strings.Split(strings.TrimSpace(s), "\n")
	if len(ls) > n {
		ls = append(ls[:n], "...")
	}
	return strings.Join(ls, "\\n")
}

func solveAll(results []*UnitResult, cfg *SolverCfg) {
	type job struct {
		o   *Obligation
		reg *Registry
	}
	var jobs []job
	for _, r := range results {
		for _, o := range r.Obligations {
			if o.Status != "" {
				continue // decided without a solver (e.g. a function outside the verified subset)
			}
			jobs = append(jobs, job{o, r.Reg})
		}
	}
	ch := make(chan job)
	var wg sync.WaitGroup
	for w := 0; w < cfg.Parallel; w++ {
		wg.Add(1)
		go func() {
			defer wg.Done()
			for j := range ch {
				solveObligation(j.o, j.reg, cfg)
			}
		}()
	}
	for _, j := range jobs {
		ch <- j
	}
	close(ch)
	wg.Wait()
}

func countChecks(file string) int {
	data, err := os.ReadFile(file)
	if err != nil {
		return 1
	}
	n := strings.Count(string(data), "(check-sat)")
	if n < 1 {
		n = 1
	}
	return n
}
