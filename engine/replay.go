package main

// Replay of solver counterexamples against the real code.
//
// For a failed obligation whose solver answer is `sat`, the entry state of the model (parameters,
// receiver and the part of the initial heap reachable from them) is read back with get-value, turned
// into Go values, and the REAL function is executed on them in an in-package test that is injected with
// `go test -overlay` (nothing is written into /repo). The clause that failed is executed too: the
// synthetic specification functions the engine type-checks are ordinary Go, so the same text that was
// translated to SMT is compiled and run. A counterexample counts as replayed ("confirmed") only if
//   - every `requires` clause of the function evaluates to true on the reified input, and
//   - postcondition / at-return assertion: the function returns normally and the clause evaluates to false;
//     safety obligation: the input could be reified completely and the function panics.
// Everything else (clause not executable: quantifiers, ghost functions, locals; input not reifiable:
// interfaces, function values, external objects; solver answer unknown) is reported as
// no-failing-input-found.

import (
	"bytes"
	"encoding/json"
	"fmt"
	"go/ast"
	"go/types"
	"os"
	"os/exec"
	"path/filepath"
	"regexp"
	"sort"
	"strconv"
	"strings"
	"time"
)

type entryVal struct {
	Role string // recv, param0, param1, ...
	Name string
	Term string
	Sort string
	Type types.Type
}

// ---------------------------------------------------------------------------
// s-expressions

type sx struct {
	atom string
	list []*sx
	isL  bool
}

func parseSexprs(s string) []*sx {
	var out []*sx
	i := 0
	var parse func() *sx
	skip := func() {
		for i < len(s) && (s[i] == ' ' || s[i] == '\n' || s[i] == '\t' || s[i] == '\r') {
			i++
		}
	}
	parse = func() *sx {
		skip()
		if i >= len(s) {
			return nil
		}
		if s[i] == '(' {
			i++
			n := &sx{isL: true}
			for {
				skip()
				if i >= len(s) {
					return n
				}
				if s[i] == ')' {
					i++
					return n
				}
				c := parse()
				if c == nil {
					return n
				}
				n.list = append(n.list, c)
			}
		}
		if s[i] == '"' {
			j := i + 1
			for j < len(s) {
				if s[j] == '"' {
					if j+1 < len(s) && s[j+1] == '"' {
						j += 2
						continue
					}
					break
				}
				j++
			}
			a := s[i : j+1]
			i = j + 1
			return &sx{atom: a}
		}
		if s[i] == '|' {
			j := strings.IndexByte(s[i+1:], '|')
			a := s[i : i+j+2]
			i += j + 2
			return &sx{atom: a}
		}
		j := i
		for j < len(s) && !strings.ContainsRune(" \n\t\r()", rune(s[j])) {
			j++
		}
		a := s[i:j]
		i = j
		return &sx{atom: a}
	}
	for {
		skip()
		if i >= len(s) {
			break
		}
		if s[i] == ')' {
			i++
			continue
		}
		n := parse()
		if n == nil {
			break
		}
		out = append(out, n)
	}
	return out
}

func (n *sx) String() string {
	if !n.isL {
		return n.atom
	}
	var ps []string
	for _, c := range n.list {
		ps = append(ps, c.String())
	}
	return "(" + strings.Join(ps, " ") + ")"
}

// smtString decodes an SMT-LIB string literal
func smtString(a string) (string, bool) {
	if len(a) < 2 || a[0] != '"' {
		return "", false
	}
	body := strings.ReplaceAll(a[1:len(a)-1], `""`, `"`)
	re := regexp.MustCompile(`\\u\{([0-9a-fA-F]+)\}|\\u([0-9a-fA-F]{4})|\\x([0-9a-fA-F]{2})`)
	body = re.ReplaceAllStringFunc(body, func(m string) string {
		sub := re.FindStringSubmatch(m)
		h := sub[1] + sub[2] + sub[3]
		v, err := strconv.ParseInt(h, 16, 32)
		if err != nil {
			return m
		}
		return string(rune(v))
	})
	return body, true
}

func smtInt(n *sx) (int64, bool) {
	if !n.isL {
		v, err := strconv.ParseInt(n.atom, 10, 64)
		return v, err == nil
	}
	if len(n.list) == 2 && n.list[0].atom == "-" {
		v, ok := smtInt(n.list[1])
		return -v, ok
	}
	return 0, false
}

// ---------------------------------------------------------------------------
// model access

type modelQuery struct {
	reg     *Registry
	inst    ObInstance
	dir     string
	pinned  []string // (= term value) facts from earlier rounds
	cache   map[string]*sx
	rounds  int
	lastRaw string
}

func (q *modelQuery) get(terms []string) bool {
	var need []string
	seen := map[string]bool{}
	for _, t := range terms {
		if _, ok := q.cache[t]; !ok && !seen[t] {
			need = append(need, t)
			seen[t] = true
		}
	}
	if len(need) == 0 {
		return true
	}
	q.rounds++
	var b strings.Builder
	b.WriteString(q.reg.prelude())
	for _, f := range q.inst.PC {
		b.WriteString("(assert " + f + ")\n")
	}
	b.WriteString("(assert (not " + q.inst.Goal + "))\n")
	for _, p := range q.pinned {
		b.WriteString("(assert " + p + ")\n")
	}
	b.WriteString("(check-sat)\n(get-value (" + strings.Join(need, " ") + "))\n")
	file := filepath.Join(q.dir, fmt.Sprintf("model%d.smt2", q.rounds))
	os.WriteFile(file, []byte(b.String()), 0o644)
	for _, cmd := range [][]string{solverCmds[0], solverCmds[1]} {
		_, raw, _ := runSolver(cmd, file, 10)
		q.lastRaw = raw
		lines := strings.SplitN(strings.TrimSpace(raw), "\n", 2)
		if len(lines) < 2 || strings.TrimSpace(lines[0]) != "sat" {
			continue
		}
		sxs := parseSexprs(lines[1])
		if len(sxs) == 0 || !sxs[0].isL || len(sxs[0].list) != len(need) {
			continue
		}
		for i, pair := range sxs[0].list {
			if pair.isL && len(pair.list) == 2 {
				q.cache[need[i]] = pair.list[1]
			}
		}
		// keep later rounds consistent with the values already read
		for _, t := range need {
			if v, ok := q.cache[t]; ok {
				vs := v.String()
				if !strings.Contains(vs, "lambda") && !strings.Contains(vs, "as-array") && !strings.Contains(vs, "as const") && len(vs) < 200 {
					q.pinned = append(q.pinned, "(= "+t+" "+vs+")")
				}
			}
		}
		return true
	}
	return false
}

// ---------------------------------------------------------------------------
// reification: model value -> Go source

type reifier struct {
	prog     *Program
	reg      *Registry
	q        *modelQuery
	pkg      *types.Package // package of the test
	imports  map[string]string
	stmts    []string
	objs     map[string]string // "<typekey>@<ref>" -> variable
	complete bool
	notes    []string
	nvar     int
	mapKeys  []string // candidate keys (SMT string literals)
}

func (r *reifier) qual(p *types.Package) string {
	if p == r.pkg {
		return ""
	}
	r.imports[p.Path()] = p.Name()
	return p.Name()
}

func (r *reifier) typeStr(t types.Type) string { return types.TypeString(t, r.qual) }

func (r *reifier) incomplete(why string) {
	r.complete = false
	r.notes = append(r.notes, why)
}

// terms needed to reify a value of type t held in `term` (static, depth-bounded)
func (r *reifier) collect(term string, t types.Type, depth int, out *[]string) {
	if depth > 4 || t == nil {
		return
	}
	srt := r.reg.sortOf(t)
	switch ut := types.Unalias(t).Underlying().(type) {
	case *types.Basic:
		*out = append(*out, term)
	case *types.Pointer:
		*out = append(*out, term)
		if typeKey(ut.Elem()) == "xtype.Type" {
			r.collectXType(term, depth, out)
			return
		}
		st, ok := types.Unalias(ut.Elem()).Underlying().(*types.Struct)
		if !ok {
			return
		}
		for i := 0; i < st.NumFields(); i++ {
			f := st.Field(i)
			h := "H_" + sanitize("F:"+typeKey(ut.Elem())+"."+f.Name()) + "_0"
			if _, declared := r.reg.funDecls[h]; !declared {
				continue
			}
			r.collect("(select "+h+" "+term+")", f.Type(), depth+1, out)
		}
	case *types.Struct:
		si := r.reg.structInfoOf(srt)
		if si == nil {
			return
		}
		for _, f := range si.fields {
			r.collect(fmt.Sprintf("(%s_%s %s)", srt, sanitize(f.name), term), f.typ, depth+1, out)
		}
	case *types.Slice:
		if !r.reg.isSlice(srt) {
			return
		}
		*out = append(*out, "(len_"+srt+" "+term+")", "(nil_"+srt+" "+term+")")
		for i := 0; i < 4; i++ {
			r.collect(fmt.Sprintf("(select (arr_%s %s) %d)", srt, term, i), ut.Elem(), depth+1, out)
		}
	case *types.Map, *types.Interface, *types.Signature, *types.Chan:
		*out = append(*out, term)
	}
}

func (r *reifier) val(term string) *sx { return r.q.cache[term] }

func (r *reifier) fresh(prefix string) string {
	r.nvar++
	return fmt.Sprintf("%s%d", prefix, r.nvar)
}

// build returns a Go expression for the value of type t held in term
func (r *reifier) build(term string, t types.Type, depth int) string {
	zero := "*new(" + r.typeStr(t) + ")"
	if depth > 4 {
		r.incomplete("object graph deeper than 4 levels at " + r.typeStr(t))
		return zero
	}
	srt := r.reg.sortOf(t)
	v := r.val(term)
	switch ut := types.Unalias(t).Underlying().(type) {
	case *types.Basic:
		if v == nil {
			return zero
		}
		switch {
		case ut.Info()&types.IsBoolean != 0:
			return r.typeStr(t) + "(" + v.String() + ")"
		case ut.Info()&types.IsInteger != 0:
			n, ok := smtInt(v)
			if !ok {
				r.incomplete("non-numeral model value for " + term)
				return zero
			}
			if ut.Info()&types.IsUnsigned != 0 && n < 0 {
				r.incomplete("negative model value for an unsigned parameter")
				return zero
			}
			return fmt.Sprintf("%s(%d)", r.typeStr(t), n)
		case ut.Info()&types.IsString != 0:
			s, ok := smtString(v.atom)
			if !ok {
				r.incomplete("non-literal model value for " + term)
				return zero
			}
			return r.typeStr(t) + "(" + strconv.Quote(s) + ")"
		}
		r.incomplete("basic kind not reified: " + ut.String())
		return zero
	case *types.Pointer:
		if v == nil {
			return zero
		}
		ref, ok := smtInt(v)
		if !ok || ref == 0 {
			return "nil"
		}
		st, isStruct := types.Unalias(ut.Elem()).Underlying().(*types.Struct)
		if !isStruct {
			r.incomplete("pointer to non-struct " + r.typeStr(t))
			return "nil"
		}
		key := fmt.Sprintf("%s@%d", typeKey(ut.Elem()), ref)
		if name, ok := r.objs[key]; ok {
			return name
		}
		if typeKey(ut.Elem()) == "xtype.Type" {
			name := r.fresh("ty")
			r.objs[key] = name
			expr, ok := r.buildGoType(term, depth)
			if !ok {
				r.incomplete("xtype.Type without a reifiable shape")
			}
			fn := "TypeOf"
			if r.pkg.Path() != "github.com/jmattheis/goverter/xtype" {
				r.imports["github.com/jmattheis/goverter/xtype"] = "xtype"
				fn = "xtype.TypeOf"
			}
			r.imports["go/types"] = "types"
			r.stmts = append(r.stmts, fmt.Sprintf("%s := %s(%s)", name, fn, expr))
			r.notes = append(r.notes, "*xtype.Type "+name+" rebuilt from its shape flags with a real go/types type (String/T are those of the rebuilt type, not of the model)")
			return name
		}
		if n, ok := types.Unalias(ut.Elem()).(*types.Named); ok && n.Obj().Pkg() != nil && !strings.HasPrefix(n.Obj().Pkg().Path(), "github.com/jmattheis/goverter") {
			r.incomplete("object of external type " + r.typeStr(ut.Elem()))
			return "nil"
		}
		name := r.fresh("o")
		r.objs[key] = name
		r.stmts = append(r.stmts, fmt.Sprintf("%s := new(%s)", name, r.typeStr(ut.Elem())))
		for i := 0; i < st.NumFields(); i++ {
			f := st.Field(i)
			if f.Pkg() != nil && f.Pkg() != r.pkg && !f.Exported() {
				continue // not settable from this package; stays zero
			}
			h := "H_" + sanitize("F:"+typeKey(ut.Elem())+"."+f.Name()) + "_0"
			if _, declared := r.reg.funDecls[h]; !declared {
				continue // the function never reads this field: any value will do
			}
			e := r.build("(select "+h+" "+term+")", f.Type(), depth+1)
			if f.Name() == "_" {
				continue
			}
			r.stmts = append(r.stmts, fmt.Sprintf("%s.%s = %s", name, f.Name(), e))
		}
		return name
	case *types.Struct:
		si := r.reg.structInfoOf(srt)
		if si == nil {
			r.incomplete("struct without datatype " + r.typeStr(t))
			return zero
		}
		name := r.fresh("s")
		r.stmts = append(r.stmts, fmt.Sprintf("var %s %s", name, r.typeStr(t)))
		for i, f := range si.fields {
			if f.name == "_" || strings.HasPrefix(f.name, "_") {
				continue
			}
			fv := ut.Field(i)
			if fv.Pkg() != nil && fv.Pkg() != r.pkg && !fv.Exported() {
				continue
			}
			e := r.build(fmt.Sprintf("(%s_%s %s)", srt, sanitize(f.name), term), f.typ, depth+1)
			r.stmts = append(r.stmts, fmt.Sprintf("%s.%s = %s", name, f.name, e))
		}
		return name
	case *types.Slice:
		if !r.reg.isSlice(srt) {
			r.incomplete("slice without datatype")
			return zero
		}
		lv, nv := r.val("(len_"+srt+" "+term+")"), r.val("(nil_"+srt+" "+term+")")
		if lv == nil {
			return zero
		}
		n, _ := smtInt(lv)
		if nv != nil && nv.atom == "true" && n == 0 {
			return "nil"
		}
		if n > 4 {
			r.incomplete("slice longer than 4 elements")
			n = 4
		}
		var elems []string
		for i := int64(0); i < n; i++ {
			elems = append(elems, r.build(fmt.Sprintf("(select (arr_%s %s) %d)", srt, term, i), ut.Elem(), depth+1))
		}
		return r.typeStr(t) + "{" + strings.Join(elems, ", ") + "}"
	case *types.Map:
		if v == nil {
			return zero
		}
		ref, ok := smtInt(v)
		if !ok || ref == 0 {
			return "nil"
		}
		key := fmt.Sprintf("map:%s@%d", r.typeStr(t), ref)
		if name, ok := r.objs[key]; ok {
			return name
		}
		name := r.fresh("m")
		r.objs[key] = name
		r.stmts = append(r.stmts, fmt.Sprintf("%s := %s{}", name, r.typeStr(t)))
		kb, okb := types.Unalias(ut.Key()).Underlying().(*types.Basic)
		if !okb || kb.Info()&types.IsString == 0 {
			r.incomplete("map with non-string keys")
			return name
		}
		ks, vs := r.reg.sortOf(ut.Key()), r.reg.sortOf(ut.Elem())
		hd := "H_" + sanitize("MD:"+ks) + "_0"
		hv := "H_" + sanitize("MV:"+ks+"|"+vs) + "_0"
		if _, declared := r.reg.funDecls[hd]; !declared {
			return name
		}
		// membership of the candidate keys (string literals of the query and string values of the model)
		var terms []string
		for _, k := range r.mapKeys {
			terms = append(terms, fmt.Sprintf("(select (select %s %s) %s)", hd, term, k))
		}
		if !r.q.get(terms) {
			r.incomplete("map contents not read back")
			return name
		}
		_, hvDeclared := r.reg.funDecls[hv]
		for i, k := range r.mapKeys {
			if mv := r.val(terms[i]); mv == nil || mv.atom != "true" {
				continue
			}
			gs, _ := smtString(k)
			elem := "*new(" + r.typeStr(ut.Elem()) + ")"
			if hvDeclared {
				et := fmt.Sprintf("(select (select %s %s) %s)", hv, term, k)
				var need []string
				r.collect(et, ut.Elem(), depth+1, &need)
				if r.q.get(need) {
					elem = r.build(et, ut.Elem(), depth+1)
				}
			}
			r.stmts = append(r.stmts, fmt.Sprintf("%s[%s] = %s", name, strconv.Quote(gs), elem))
		}
		r.notes = append(r.notes, "map "+name+": only keys among the string values of the model were read back")
		return name
	case *types.Interface:
		if v == nil {
			return zero
		}
		ref, ok := smtInt(v)
		if ok && ref == 0 {
			return "nil"
		}
		if types.Identical(t, types.Universe.Lookup("error").Type()) {
			r.imports["errors"] = "errors"
			r.notes = append(r.notes, "non-nil error reified as errors.New")
			return `errors.New("replayed error")`
		}
		r.incomplete("non-nil interface value of type " + r.typeStr(t))
		return "nil"
	case *types.Signature, *types.Chan:
		if v != nil {
			if ref, ok := smtInt(v); ok && ref == 0 {
				return "nil"
			}
		}
		r.incomplete("function or channel value")
		return "nil"
	}
	r.incomplete("type not reified: " + r.typeStr(t))
	return zero
}

// ---------------------------------------------------------------------------
// executable prelude (replaces the type-checking-only ghost vocabulary in the replay build)

const execPrelude = `
// ghost vocabulary, executable where that is possible (replay build)
var replaySnap = map[any]any{}
func replaySnapshot[T any](p *T) { if p != nil { c := *p; replaySnap[any(p)] = &c } }
func implies(a, b bool) bool { return !a || b }
func iff(a, b bool) bool { return a == b }
func forall[T any](f func(T) bool) bool { panic("not executable: forall") }
func exists[T any](f func(T) bool) bool { panic("not executable: exists") }
func forall2[T, U any](f func(T, U) bool) bool { panic("not executable: forall") }
func forall3[T, U, V any](f func(T, U, V) bool) bool { panic("not executable: forall") }
func exists2[T, U any](f func(T, U) bool) bool { panic("not executable: exists") }
func old[T any](x T) T { panic("not executable: old outside a rewritten clause") }
func has[K comparable, V any](m map[K]V, k K) bool { _, ok := m[k]; return ok }
func keys[K comparable, V any](m map[K]V) map[K]bool { r := map[K]bool{}; for k := range m { r[k] = true }; return r }
func dynIs[T any](x any) bool { _, ok := x.(T); return ok }
func unboxed[T any](x any) T { return x.(T) }
func seqEq[T any](a, b []T) bool { if len(a) != len(b) { return false }; for i := range a { if !same(a[i], b[i]) { return false } }; return true }
func typeOK[T any](x T) bool { panic("not executable: typeOK") }
func unchangedExcept[T any](p *T, fields ...string) bool {
	o, ok := replaySnap[any(p)]
	if !ok { panic("not executable: no snapshot") }
	ov, nv := replayreflect.ValueOf(o).Elem(), replayreflect.ValueOf(p).Elem()
	for i := 0; i < nv.NumField(); i++ {
		skip := false
		for _, f := range fields { if f == nv.Type().Field(i).Name { skip = true } }
		if skip { continue }
		a := replayreflect.NewAt(ov.Field(i).Type(), replayunsafe.Pointer(ov.Field(i).UnsafeAddr())).Elem().Interface()
		b := replayreflect.NewAt(nv.Field(i).Type(), replayunsafe.Pointer(nv.Field(i).UnsafeAddr())).Elem().Interface()
		if !replayreflect.DeepEqual(a, b) { return false }
	}
	return true
}
func same[T any](a, b T) (r bool) {
	defer func() { if recover() != nil { r = replayreflect.DeepEqual(a, b) } }()
	return any(a) == any(b)
}
func setEq[K comparable](a, b map[K]bool) bool { for k, v := range a { if v && !b[k] { return false } }; for k, v := range b { if v && !a[k] { return false } }; return true }
func ite[T any](c bool, a, b T) T { if c { return a }; return b }
func allocated[T any](x T) bool { panic("not executable: allocated") }
func isFresh[T any](x T) bool { panic("not executable: isFresh") }
func sortedStrings(a []string) bool { for i := 1; i < len(a); i++ { if a[i-1] > a[i] { return false } }; return true }
func permOf[T any](a, b []T) bool { panic("not executable: permOf") }
func fst[A, B any](a A, b B) A { return a }
func snd[A, B any](a A, b B) B { return b }
func reached(site string) bool { panic("not executable: reached") }
`

func execSynth(src string) string {
	src = strings.Replace(src, ghostPrelude, execPrelude, 1)
	src = strings.Replace(src, "import (\n", "import (\n\treplayreflect \"reflect\"\n\treplayunsafe \"unsafe\"\n", 1)
	// ghost functions and abstract predicates have panic(0) bodies already
	return src
}

// ---------------------------------------------------------------------------

func pkgDir(prog *Program, short string) string {
	if short == "goverter" {
		return prog.Repo
	}
	return filepath.Join(prog.Repo, short)
}

// clauseExec describes how a clause can be executed from outside the function
type clauseExec struct {
	sf       *SpecFn
	callArgs func(argOf func(role, name string, t types.Type) string) []string
	oldExprs []string // source of the old(...) arguments
	oldTypes []string
	body     string // source of the clause with old(e_k) replaced
	params   string // parameter list source
	ok       bool
	why      string
}

func (p *Program) clauseSource(sf *SpecFn) (params, body string, olds []struct{ src, typ string }, why string) {
	src := p.SynthSrc[sf.Pkg]
	pkg := p.Pkgs[sf.Pkg]
	if src == "" || pkg == nil || sf.Decl == nil || sf.Decl.Body == nil || len(sf.Decl.Body.List) != 1 {
		return "", "", nil, "no source for the clause"
	}
	if sf.Decl.Type.TypeParams != nil {
		return "", "", nil, "generic clause"
	}
	off := func(pos interface{ IsValid() bool }) int { return 0 }
	_ = off
	o := func(n ast.Node, end bool) int {
		if end {
			return p.Fset.Position(n.End()).Offset
		}
		return p.Fset.Position(n.Pos()).Offset
	}
	ret, ok := sf.Decl.Body.List[0].(*ast.ReturnStmt)
	if !ok || len(ret.Results) != 1 {
		return "", "", nil, "clause body is not a single return"
	}
	ps := sf.Decl.Type.Params
	if o(ps, true) > len(src) {
		return "", "", nil, "source offsets out of range"
	}
	params = src[o(ps, false)+1 : o(ps, true)-1]
	bstart, bend := o(ret.Results[0], false), o(ret.Results[0], true)
	// locals / ghost variables referenced?
	usedBad := ""
	roleOf := map[*types.Var]string{}
	k := 0
	for _, f := range ps.List {
		for _, n := range f.Names {
			if v, ok := pkg.TypesInfo.Defs[n].(*types.Var); ok && k < len(sf.Roles) {
				roleOf[v] = sf.Roles[k]
			}
			k++
		}
	}
	type repl struct {
		from, to int
		text     string
	}
	var repls []repl
	ast.Inspect(ret.Results[0], func(n ast.Node) bool {
		switch n := n.(type) {
		case *ast.Ident:
			if v, ok := pkg.TypesInfo.Uses[n].(*types.Var); ok {
				if role, ok := roleOf[v]; ok {
					kind := role[:strings.Index(role, ":")]
					if kind == "local" || kind == "ghost" || kind == "callarg" || kind == "bind" {
						usedBad = role
					}
				}
			}
		case *ast.CallExpr:
			if id, ok := n.Fun.(*ast.Ident); ok && id.Name == "old" && len(n.Args) == 1 {
				if f, ok := pkg.TypesInfo.Uses[id].(*types.Func); ok && isGhostVocabulary(f) {
					t := pkg.TypesInfo.TypeOf(n.Args[0])
					ts := types.TypeString(t, qualifierFor(pkg.Types))
					olds = append(olds, struct{ src, typ string }{src[o(n.Args[0], false):o(n.Args[0], true)], ts})
					repls = append(repls, repl{o(n, false), o(n, true), fmt.Sprintf("replayOld[%d].(%s)", len(olds)-1, ts)})
					return false
				}
			}
		}
		return true
	})
	if usedBad != "" {
		return "", "", nil, "clause mentions " + usedBad + " (not observable from outside the function)"
	}
	sort.Slice(repls, func(i, j int) bool { return repls[i].from > repls[j].from })
	body = src[bstart:bend]
	for _, r := range repls {
		body = body[:r.from-bstart] + r.text + body[r.to-bstart:]
	}
	return params, body, olds, ""
}

func isReplayKind(kind string) string {
	switch kind {
	case "post":
		return "post"
	case "assert":
		return "post"
	case "nil", "index", "slice", "panic", "assert-type", "nilmap", "div", "call-pre":
		return "safety"
	}
	return ""
}

// tryReplay: see the comment at the top of the file.
func tryReplay(prog *Program, cfg *RunCfg, o *Obligation, r *UnitResult) (bool, string) {
	mode := isReplayKind(o.Kind)
	if mode == "" {
		return false, "obligations of kind " + o.Kind + " are not replayed (mid-execution state)"
	}
	if mode == "safety" && o.Kind == "call-pre" && (o.Clause == nil || !strings.Contains(strings.Join(o.Props, " "), "C13")) {
		return false, "precondition of a callee: not observable from outside the function"
	}
	fi := prog.Funcs[r.Key]
	if fi == nil || fi.Obj == nil || len(r.Entry) == 0 && fi.Obj.Type().(*types.Signature).Params().Len() > 0 {
		return false, "no entry state recorded for " + r.Key
	}
	if fi.Decl.Type.TypeParams != nil || (fi.Decl.Recv != nil && hasTypeParams(fi.Obj)) {
		return false, "generic function: not replayed"
	}
	for _, e := range r.UsedExt {
		if strings.HasPrefix(e, "os.") || strings.Contains(e, "packages.Load") || strings.HasPrefix(e, "flag.") {
			return false, "function has external effects (" + e + "): not replayed"
		}
	}
	if o.FailInst < 0 || o.FailInst >= len(o.Instances) {
		return false, "no failing path instance"
	}
	dir := filepath.Join(cfg.Out, "replay", sanitize(o.Name))
	os.RemoveAll(dir)
	os.MkdirAll(dir, 0o755)
	q := &modelQuery{reg: r.Reg, inst: o.Instances[o.FailInst], dir: dir, cache: map[string]*sx{}}
	tpkg := fi.Pkg.Types
	rf := &reifier{prog: prog, reg: r.Reg, q: q, pkg: tpkg, imports: map[string]string{}, objs: map[string]string{}, complete: true}
	var terms []string
	for _, e := range r.Entry {
		rf.collect(e.Term, e.Type, 0, &terms)
	}
	if !q.get(terms) {
		return false, "the solver gave no model for the failing path (" + firstLines(q.lastRaw, 2) + ")"
	}
	// candidate map keys: string literals of the query and string values of the model
	keySet := map[string]bool{}
	lit := regexp.MustCompile(`"(?:[^"]|"")*"`)
	for _, f := range append(append([]string{}, q.inst.PC...), q.inst.Goal) {
		for _, m := range lit.FindAllString(f, -1) {
			keySet[m] = true
		}
	}
	for _, v := range q.cache {
		if !v.isL && strings.HasPrefix(v.atom, `"`) {
			keySet[v.atom] = true
		}
	}
	for k := range keySet {
		rf.mapKeys = append(rf.mapKeys, k)
	}
	sort.Strings(rf.mapKeys)
	if len(rf.mapKeys) > 40 {
		rf.mapKeys = rf.mapKeys[:40]
	}
	argExpr := map[string]string{}
	for _, e := range r.Entry {
		argExpr[e.Role] = rf.build(e.Term, e.Type, 0)
	}
	sig := fi.Obj.Type().(*types.Signature)
	// ---- test source
	var b strings.Builder
	var decls strings.Builder
	w := func(f string, a ...interface{}) { fmt.Fprintf(&b, f+"\n", a...) }
	for _, s := range rf.stmts {
		w("\t%s", s)
	}
	// arguments
	var callArgs []string
	for i := 0; i < sig.Params().Len(); i++ {
		name := fmt.Sprintf("a%d", i)
		e, ok := argExpr[fmt.Sprintf("param%d", i)]
		if !ok {
			e = "*new(" + rf.typeStr(sig.Params().At(i).Type()) + ")"
			rf.incomplete("parameter without entry value")
		}
		w("\tvar %s %s = %s", name, rf.typeStr(sig.Params().At(i).Type()), e)
		w("\t_ = %s", name)
		if sig.Variadic() && i == sig.Params().Len()-1 {
			callArgs = append(callArgs, name+"...")
		} else {
			callArgs = append(callArgs, name)
		}
		if _, ok := sig.Params().At(i).Type().Underlying().(*types.Pointer); ok {
			if _, ok := sig.Params().At(i).Type().Underlying().(*types.Pointer).Elem().Underlying().(*types.Struct); ok {
				w("\treplaySnapshot(%s)", name)
			}
		}
	}
	callee := fi.Obj.Name()
	if sig.Recv() != nil {
		e, ok := argExpr["recv"]
		if !ok {
			return false, "receiver without entry value"
		}
		w("\tvar recv %s = %s", rf.typeStr(sig.Recv().Type()), e)
		if pt, ok := sig.Recv().Type().Underlying().(*types.Pointer); ok {
			if _, ok := pt.Elem().Underlying().(*types.Struct); ok {
				w("\treplaySnapshot(recv)")
			}
		}
		callee = "recv." + callee
	}
	// arguments of a specification function by role
	zeroOf := func(t string) string { return "*new(" + t + ")" }
	specArgs := func(sf *SpecFn, withResults bool) ([]string, string) {
		pkg := prog.Pkgs[sf.Pkg]
		var out []string
		k := 0
		for _, f := range sf.Decl.Type.Params.List {
			ts := types.TypeString(pkg.TypesInfo.TypeOf(f.Type), rf.qual)
			if _, isEll := f.Type.(*ast.Ellipsis); isEll {
				return nil, "variadic clause parameter"
			}
			for range f.Names {
				role := sf.Roles[k]
				k++
				kind := role[:strings.Index(role, ":")]
				switch {
				case kind == "recv":
					out = append(out, "recv")
				case strings.HasPrefix(kind, "param"):
					var idx int
					fmt.Sscanf(kind, "param%d", &idx)
					out = append(out, fmt.Sprintf("a%d", idx))
				case strings.HasPrefix(kind, "result"):
					var idx int
					fmt.Sscanf(kind, "result%d", &idx)
					if withResults {
						out = append(out, fmt.Sprintf("r%d", idx))
					} else {
						out = append(out, zeroOf(ts))
					}
				default:
					out = append(out, zeroOf(ts))
				}
			}
		}
		return out, ""
	}
	// requires
	nreq := 0
	if fi.Con != nil {
		for _, c := range fi.Con.Requires {
			sf := prog.SpecFns[c.SpecFunc]
			if sf == nil || sf.Decl == nil || sf.Decl.Type.TypeParams != nil {
				return false, "a precondition of " + r.Key + " is not executable"
			}
			args, why := specArgs(sf, false)
			if why != "" {
				return false, why
			}
			w("\tcheckPre(%q, func() bool { return %s(%s) })", c.Text, sf.Name, strings.Join(args, ", "))
			nreq++
		}
	}
	// the clause
	clauseCall := ""
	if mode == "post" {
		if o.Clause == nil {
			return false, "obligation without a clause"
		}
		sf := prog.SpecFns[o.Clause.SpecFunc]
		if sf == nil {
			return false, "clause without specification function"
		}
		params, body, olds, why := prog.clauseSource(sf)
		if why != "" {
			return false, "clause not executable: " + why
		}
		args, why2 := specArgs(sf, true)
		if why2 != "" {
			return false, why2
		}
		argsPre, _ := specArgs(sf, false)
		var oldSrc []string
		for _, od := range olds {
			oldSrc = append(oldSrc, "any("+od.src+")")
		}
		fmt.Fprintf(&decls, "func replayOldOf(%s) []any { return []any{%s} }\n", params, strings.Join(oldSrc, ", "))
		sep := ", "
		if strings.TrimSpace(params) == "" {
			sep = ""
		}
		fmt.Fprintf(&decls, "func replayClause(%s%sreplayOld []any) bool { return %s }\n", params, sep, body)
		w("\tvar replayOld []any")
		w("\tguard(\"old-state\", func() { replayOld = replayOldOf(%s) })", strings.Join(argsPre, ", "))
		clauseCall = fmt.Sprintf("replayClause(%s%sreplayOld)", strings.Join(args, ", "), sep)
	}
	// the call
	var resNames []string
	for i := 0; i < sig.Results().Len(); i++ {
		resNames = append(resNames, fmt.Sprintf("r%d", i))
		w("\tvar r%d %s", i, rf.typeStr(sig.Results().At(i).Type()))
		w("\t_ = r%d", i)
	}
	assign := ""
	if len(resNames) > 0 {
		assign = strings.Join(resNames, ", ") + " = "
	}
	w("\tpanicked := guard(\"call\", func() { %s%s(%s) })", assign, callee, strings.Join(callArgs, ", "))
	if mode == "post" {
		w("\tif !panicked {")
		w("\t\tguard(\"clause\", func() { fmt.Println(\"REPLAY clause =\", %s) })", clauseCall)
		w("\t}")
	}
	var imps []string
	rf.imports["fmt"] = "fmt"
	rf.imports["testing"] = "testing"
	// the clause text may mention any package the synthetic specification file of this package imports
	impRe := regexp.MustCompile(`(?m)^\s*(\w+) "([^"]+)"$`)
	if src := prog.SynthSrc[shortPkg(tpkg.Path())]; src != "" {
		if i := strings.Index(src, "import ("); i >= 0 {
			if j := strings.Index(src[i:], "\n)"); j >= 0 {
				for _, m := range impRe.FindAllStringSubmatch(src[i:i+j], -1) {
					if _, ok := rf.imports[m[2]]; !ok {
						rf.imports[m[2]] = m[1]
					}
				}
			}
		}
	}
	bodyText := decls.String() + b.String()
	for path, name := range rf.imports {
		if name != "fmt" && name != "testing" && !regexp.MustCompile(`\b`+regexp.QuoteMeta(name)+`\.`).MatchString(bodyText) {
			continue
		}
		imps = append(imps, fmt.Sprintf("\t%s %q", name, path))
	}
	sort.Strings(imps)
	test := "package " + tpkg.Name() + "\n\nimport (\n" + strings.Join(imps, "\n") + "\n)\n\n" + decls.String() + `
func TestVerifReplay(t *testing.T) {
	preOK := true
	guard := func(what string, f func()) (panicked bool) {
		defer func() {
			if r := recover(); r != nil {
				panicked = true
				fmt.Printf("REPLAY panic in %s: %v\n", what, r)
			}
		}()
		f()
		return false
	}
	checkPre := func(text string, f func() bool) {
		ok := false
		if guard("requires", func() { ok = f() }) || !ok {
			preOK = false
			fmt.Println("REPLAY requires not established:", text)
		}
	}
	_ = checkPre
` + b.String() + `	fmt.Println("REPLAY preOK =", preOK)
}
`
	testFile := filepath.Join(dir, "zz_replay_verif_test.go")
	os.WriteFile(testFile, []byte(test), 0o644)
	overlay := map[string]string{filepath.Join(fi.Pkg.Dir, "zz_replay_verif_test.go"): testFile}
	for short, src := range prog.SynthSrc {
		f := filepath.Join(dir, "synth_"+sanitize(short)+".go")
		os.WriteFile(f, []byte(execSynth(src)), 0o644)
		overlay[filepath.Join(pkgDir(prog, short), "zz_spec_synth_verif.go")] = f
	}
	// contract files that only exist in the mirror
	for short, f := range prog.CS.Files {
		if !strings.HasPrefix(f, prog.Repo+"/") {
			overlay[filepath.Join(pkgDir(prog, short), "zz_contracts_verif.go")] = f
		}
	}
	ov, _ := json.Marshal(map[string]interface{}{"Replace": overlay})
	ovFile := filepath.Join(dir, "overlay.json")
	os.WriteFile(ovFile, ov, 0o644)
	cmd := exec.Command("go", "test", "-tags", "verif", "-overlay", ovFile, "-vet=off", "-count=1", "-timeout", "60s", "-run", "^TestVerifReplay$", "-v", ".")
	cmd.Dir = fi.Pkg.Dir
	cmd.Env = append(os.Environ(), "GOFLAGS=-mod=mod", "GOPROXY=off", "GOSUMDB=off", "GOTOOLCHAIN=local")
	var outb bytes.Buffer
	cmd.Stdout, cmd.Stderr = &outb, &outb
	start := time.Now()
	done := make(chan error, 1)
	go func() { done <- cmd.Run() }()
	select {
	case <-done:
	case <-time.After(120 * time.Second):
		if cmd.Process != nil {
			cmd.Process.Kill()
		}
	}
	out := outb.String()
	os.WriteFile(filepath.Join(dir, "go-test-output.txt"), []byte(out), 0o644)
	detail := map[string]interface{}{
		"test_file":        testFile,
		"overlay":          ovFile,
		"command":          "cd " + fi.Pkg.Dir + " && go test -tags verif -overlay " + ovFile + " -vet=off -count=1 -run '^TestVerifReplay$' -v .",
		"seconds":          time.Since(start).Seconds(),
		"input_complete":   rf.complete,
		"reification":      rf.notes,
		"solver_rounds":    q.rounds,
		"output":           firstLines(out, 40),
	}
	js, _ := json.MarshalIndent(detail, "", " ")
	if !strings.Contains(out, "REPLAY preOK =") {
		return false, "replay did not run to completion (build error or crash); " + string(js)
	}
	if !strings.Contains(out, "REPLAY preOK = true") {
		return false, "the reified input does not establish the preconditions; " + string(js)
	}
	switch mode {
	case "post":
		if strings.Contains(out, "REPLAY clause = false") && !strings.Contains(out, "REPLAY panic in call") {
			return true, "CONFIRMED: the real function returns normally on the reified counterexample and the clause evaluates to false; " + string(js)
		}
		return false, "the clause did not evaluate to false on the real code; " + string(js)
	case "safety":
		if strings.Contains(out, "REPLAY panic in call") && rf.complete {
			return true, "CONFIRMED: the real function panics on the reified counterexample; " + string(js)
		}
		return false, "no panic observed on the real code (or the input was only partly reified); " + string(js)
	}
	return false, string(js)
}

func hasTypeParams(f *types.Func) bool {
	sig := f.Type().(*types.Signature)
	return sig.RecvTypeParams().Len() > 0 || sig.TypeParams().Len() > 0
}

// ---------------------------------------------------------------------------
// *xtype.Type: rebuilt from the shape flags of the model as a real go/types type

var xtypeFlags = []string{"Pointer", "Basic", "Map", "List", "ListFixed", "Struct", "Named", "Interface", "Signature", "Chan"}
var xtypeInner = []string{"PointerInner", "ListInner", "MapKey", "MapValue"}

func (r *reifier) xtHeap(field string) (string, bool) {
	h := "H_" + sanitize("F:xtype.Type."+field) + "_0"
	_, ok := r.reg.funDecls[h]
	return h, ok
}

func (r *reifier) basicKindFn() string {
	for n := range r.reg.funDecls {
		if strings.HasPrefix(n, "ext_go_types.Basic.Kind_0") {
			return n
		}
	}
	return ""
}

func (r *reifier) collectXType(term string, depth int, out *[]string) {
	if depth > 3 {
		return
	}
	for _, f := range xtypeFlags {
		if h, ok := r.xtHeap(f); ok {
			*out = append(*out, "(select "+h+" "+term+")")
		}
	}
	if h, ok := r.xtHeap("BasicType"); ok {
		if fn := r.basicKindFn(); fn != "" {
			*out = append(*out, "("+fn+" (select "+h+" "+term+"))")
		}
	}
	for _, f := range xtypeInner {
		if h, ok := r.xtHeap(f); ok {
			inner := "(select " + h + " " + term + ")"
			*out = append(*out, inner)
			r.collectXType(inner, depth+1, out)
		}
	}
}

func (r *reifier) xtFlag(term, field string) bool {
	h, ok := r.xtHeap(field)
	if !ok {
		return false
	}
	v := r.val("(select " + h + " " + term + ")")
	return v != nil && v.atom == "true"
}

// buildGoType returns a Go expression of type types.Type for the shape of the *xtype.Type at term
func (r *reifier) buildGoType(term string, depth int) (string, bool) {
	r.imports["go/types"] = "types"
	if depth > 3 {
		return "types.Typ[types.Int]", false
	}
	inner := func(field string) (string, bool) {
		h, ok := r.xtHeap(field)
		if !ok {
			return "types.Typ[types.Int]", true
		}
		t := "(select " + h + " " + term + ")"
		if v := r.val(t); v != nil {
			if ref, ok := smtInt(v); ok && ref == 0 {
				return "types.Typ[types.Int]", false
			}
		}
		return r.buildGoType(t, depth+1)
	}
	var expr string
	ok := true
	switch {
	case r.xtFlag(term, "Pointer"):
		e, o := inner("PointerInner")
		expr, ok = "types.NewPointer("+e+")", o
	case r.xtFlag(term, "Basic"):
		kind := int64(2) // types.Int
		if h, okh := r.xtHeap("BasicType"); okh {
			if fn := r.basicKindFn(); fn != "" {
				if v := r.val("(" + fn + " (select " + h + " " + term + "))"); v != nil {
					if k, okk := smtInt(v); okk && k >= 1 && k <= 17 {
						kind = k
					}
				}
			}
		}
		expr = fmt.Sprintf("types.Typ[types.BasicKind(%d)]", kind)
	case r.xtFlag(term, "Map"):
		k, o1 := inner("MapKey")
		e, o2 := inner("MapValue")
		expr, ok = "types.NewMap("+k+", "+e+")", o1 && o2
	case r.xtFlag(term, "List"):
		e, o := inner("ListInner")
		if r.xtFlag(term, "ListFixed") {
			expr = "types.NewArray(" + e + ", 2)"
		} else {
			expr = "types.NewSlice(" + e + ")"
		}
		ok = o
	case r.xtFlag(term, "Struct"):
		expr = "types.NewStruct(nil, nil)"
	case r.xtFlag(term, "Interface"):
		expr = "types.NewInterfaceType(nil, nil)"
	case r.xtFlag(term, "Signature"):
		expr = "types.NewSignatureType(nil, nil, nil, nil, nil, false)"
	case r.xtFlag(term, "Chan"):
		expr = "types.NewChan(types.SendRecv, types.Typ[types.Int])"
	default:
		return "types.Typ[types.Int]", false
	}
	if r.xtFlag(term, "Named") {
		r.imports["go/token"] = "token"
		r.nvar++
		expr = fmt.Sprintf("types.NewNamed(types.NewTypeName(token.NoPos, types.NewPackage(\"example.org/replay\", \"replay\"), \"N%d\", nil), %s, nil)", r.nvar, expr)
	}
	return expr, ok
}
