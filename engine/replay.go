package main

// Replay of solver counterexamples against the real code (go test -overlay).

func tryReplay(prog *Program, cfg *RunCfg, o *Obligation, r *UnitResult) (bool, string) {
	return false, "no reifier for this function: counterexample not replayed (model and SMT file attached)"
}
