package main

// Driver: verification of one function against its contract; lemmas.

import (
	"fmt"
	"go/ast"
	"go/types"
	"sort"
	"strings"

	"golang.org/x/tools/go/packages"
)

type globalInitInfo struct {
	expr ast.Expr
	pkg  *packages.Package
}

type UnitResult struct {
	Key           string
	Obligations   []*Obligation
	Reg           *Registry
	UsedContracts []string
	UsedExt       []string
	HavocCalls    []string
	Unmodelled    []string
	Notes         []string
	EngineError   string
	SrcHash       string
	Exits         []exitRecord
	Entry         []entryVal
}

func newUnit(prog *Program, fi *FuncInfo, con *Contract) *Unit {
	u := &Unit{
		prog: prog, fi: fi, con: con, reg: NewRegistry(),
		obls: map[string]*Obligation{}, siteOrd: map[ast.Node]string{}, heapSort: map[string]string{},
		usedContracts: map[string]bool{}, usedExt: map[string]bool{}, havocCalls: map[string]bool{}, unmodelled: map[string]bool{},
		siteDone: map[ast.Node]bool{}, refMapValue: map[string]bool{},
	}
	if fi != nil {
		u.pkg = fi.Pkg
		u.info = fi.Pkg.TypesInfo
		u.curFuncKey = fi.Key
	}
	return u
}

func (u *Unit) initState() *State {
	st := &State{env: map[*types.Var]Val{}, heap: map[string]string{}}
	u.reg.declare("alloc_0", nil, "Int")
	u.reg.declare("epoch_0", nil, "Int")
	st.alloc = "alloc_0"
	st.epoch = "epoch_0"
	st.assume("(>= alloc_0 0)")
	return st
}

func (u *Unit) paramVal(st *State, name string, t types.Type) Val {
	srt := u.reg.sortOf(t)
	nm := "p_" + sanitize(name)
	if _, dup := u.reg.funDecls[nm]; dup {
		nm = u.reg.fresh("p_"+name, srt)
	} else {
		u.reg.declare(nm, nil, srt)
	}
	v := Val{T: nm, S: srt, GT: t}
	if srt == "Int" && u.isRefType(t) {
		st.assume("(>= " + nm + " 0)")
		st.assume("(<= " + nm + " " + st.alloc + ")")
	}
	u.sliceFacts(st, v)
	// struct-valued parameter: its reference members are allocated, its slices well-formed
	u.structMemberFacts(st, srt, nm, 0)
	return v
}

func (u *Unit) structMemberFacts(st *State, srt, term string, depth int) {
	si := u.reg.structInfoOf(srt)
	if si == nil || depth > 3 {
		return
	}
	for _, f := range si.fields {
		acc := fmt.Sprintf("(%s_%s %s)", srt, sanitize(f.name), term)
		if f.sort == "Int" && u.isRefType(f.typ) {
			st.assume("(>= " + acc + " 0)")
			st.assume("(<= " + acc + " " + st.alloc + ")")
		}
		if u.reg.isSlice(f.sort) {
			st.assume("(>= (len_" + f.sort + " " + acc + ") 0)")
		}
		u.structMemberFacts(st, f.sort, acc, depth+1)
	}
}

// VerifyFunc symbolically executes a function and collects its obligations.
// autoPropagate: functions that are checked for "no error is dropped" although their contract does not ask
// for it (C17 covers every function of the module that returns an error)
var autoPropagate = map[string]bool{}

func VerifyFunc(prog *Program, fi *FuncInfo, tier string) (res *UnitResult) {
	con := fi.Con
	if autoPropagate[fi.Key] {
		if con == nil {
			con = &Contract{Pkg: shortPkg(fi.Pkg.PkgPath), FuncName: fi.Key, Key: fi.Key, Propagates: true, Props: []string{"C17"}, PropProps: []string{"C17"}, Loops: map[int]*LoopSpec{}, MapRange: map[int]string{}}
		} else if !con.Propagates {
			c2 := *con
			c2.Propagates = true
			c2.PropProps = []string{"C17"}
			con = &c2
		}
	}
	u := newUnit(prog, fi, con)
	u.tier = tier
	res = &UnitResult{Key: fi.Key, Reg: u.reg}
	defer func() {
		if r := recover(); r != nil {
			if ee, ok := r.(engineError); ok {
				res.EngineError = ee.msg
			} else {
				res.EngineError = fmt.Sprintf("internal engine panic: %v", r)
				panic(r)
			}
		}
		u.finish(res)
	}()
	fi.loops = collectLoops(prog, fi)
	closureLits = collectClosureLits(fi.Pkg.TypesInfo, fi.Decl.Body)
	u.atAsserts = map[*ast.CallExpr][]*Clause{}
	u.errDropSites = map[*ast.CallExpr]bool{}
	if u.con != nil {
		for _, d := range u.con.ErrDrops {
			f := strings.Fields(d)
			sites := findCallSites(prog, fi, f[0])
			if len(sites) == 0 {
				prog.CS.Stale = append(prog.CS.Stale, fmt.Sprintf("%s: errdrop site %s not found", fi.Key, f[0]))
			}
			for _, sn := range sites {
				if site, ok := sn.(*ast.CallExpr); ok {
					u.errDropSites[site] = true
				}
			}
			u.reg.note("declared error drop in " + fi.Key + ": " + d)
		}
	}
	u.forbidSites = map[*ast.CallExpr]*Clause{}
	if u.con != nil {
		for _, c := range u.con.Forbids {
			name := strings.Fields(c.Text)[0]
			for _, sn := range findCallSites(prog, fi, name+"#*") {
				if site, ok := sn.(*ast.CallExpr); ok {
					u.forbidSites[site] = c
				}
			}
		}
	}
	if u.con != nil {
		for _, c := range u.con.Asserts {
			if c.At == "return" {
				continue
			}
			for _, sn := range findCallSites(prog, fi, c.At) {
				if site, ok := sn.(*ast.CallExpr); ok {
					u.atAsserts[site] = append(u.atAsserts[site], c)
				}
			}
		}
	}
	u.computeSiteOrdinals(fi.Decl.Body, "")
	u.siteDone[fi.Decl.Body] = true
	st := u.initState()
	sig := fi.Obj.Type().(*types.Signature)
	// receiver
	if fi.Decl.Recv != nil && len(fi.Decl.Recv.List) == 1 {
		rf := fi.Decl.Recv.List[0]
		rt := sig.Recv().Type()
		name := "this"
		var rvar *types.Var
		if len(rf.Names) == 1 && rf.Names[0].Name != "_" {
			name = rf.Names[0].Name
			rvar, _ = u.info.Defs[rf.Names[0]].(*types.Var)
		}
		v := u.paramVal(st, name, rt)
		if _, isPtr := rt.(*types.Pointer); isPtr {
			// methods are called on non-nil receivers unless the contract says otherwise;
			// this is an assumption only for receivers that are dereferenced (checked at call sites
			// through the nil-dereference obligation of the selector expression)
		}
		u.entryRecv = &v
		if rvar != nil {
			st.env[rvar] = v
		}
	}
	idx := 0
	for _, fl := range fi.Decl.Type.Params.List {
		names := fl.Names
		if len(names) == 0 {
			names = []*ast.Ident{nil}
		}
		for _, n := range names {
			p := sig.Params().At(idx)
			name := fmt.Sprintf("p%d", idx)
			if n != nil && n.Name != "_" {
				name = n.Name
			}
			v := u.paramVal(st, name, p.Type())
			u.entryParams = append(u.entryParams, v)
			if n != nil && n.Name != "_" {
				if pv, ok := u.info.Defs[n].(*types.Var); ok {
					st.env[pv] = v
				}
			}
			idx++
		}
	}
	fr := &retFrame{sig: sig}
	if fi.Decl.Type.Results != nil {
		for _, fl := range fi.Decl.Type.Results.List {
			for _, n := range fl.Names {
				v, _ := u.info.Defs[n].(*types.Var)
				fr.results = append(fr.results, v)
				if v != nil {
					srt := u.reg.sortOf(v.Type())
					st.env[v] = Val{T: u.reg.zero(srt), S: srt, GT: v.Type()}
				}
			}
		}
	}
	u.frames = []*retFrame{fr}
	u.entry = st.clone()
	u.writesTypeInv = u.functionWritesTypeInv()
	// object invariants of the parameters hold on entry
	if !u.writesTypeInv {
		all := append([]Val{}, u.entryParams...)
		if u.entryRecv != nil {
			all = append(all, *u.entryRecv)
		}
		for _, pv := range all {
			if pt, ok := pv.GT.Underlying().(*types.Pointer); ok && pv.S == "Int" {
				u.assumeTypeInv(st, pv, pt.Elem())
			}
		}
	}
	// axioms about external libraries stated in this package's contract file (assumed, reported)
	for _, ax := range prog.CS.Axioms {
		if prog.CS.Files[fi.Pkg.Name] != ax.File && prog.CS.Files[shortPkg(fi.Pkg.PkgPath)] != ax.File {
			continue
		}
		g := u.evalClause(ax, st, u.entry, nil, u.entryBindings(nil))
		u.reg.axiom(g)
		u.reg.note("assumed axiom: " + ax.Text)
	}
	// behavioural subtyping: what the interface contract demands from callers is enough for this implementation
	if u.con != nil {
		for _, ic := range u.ifaceContracts() {
			pre := st.clone()
			for _, c := range ic.Requires {
				pre.assume(u.evalClause(c, pre, u.entry, nil, u.entryBindings(nil)))
			}
			for k, c := range u.con.Requires {
				g := u.evalClause(c, pre, u.entry, nil, u.entryBindings(nil))
				u.oblige(pre, fmt.Sprintf("iface#%s#pre#%d", ic.Key, k+1), "call-pre", g, u.clauseProps(c), c, "precondition follows from the contract of the interface method "+ic.Key+": "+c.Text, nil)
			}
		}
	}
	// preconditions
	if u.con != nil {
		for _, c := range u.con.Requires {
			g := u.evalClause(c, st, u.entry, nil, u.entryBindings(nil))
			st.assume(g)
		}
		u.entry.pc = append([]string(nil), st.pc...)
		u.cover(st, "cover#pre", "precondition is satisfiable")
	}
	outs := u.execBlock(fi.Decl.Body.List, st)
	retOrd := 0
	for _, o := range outs {
		switch o.kind {
		case oReturn, oNormal:
			retOrd++
			u.paths++
			if o.kind == oNormal {
				u.runDefers(o.st)
			}
			u.checkPost(o.st, o.vals, retOrd)
		default:
			u.fail("break/continue outside loop in %s", fi.Key)
		}
	}
	return res
}

func (u *Unit) checkPost(st *State, vals []Val, ord int) {
	if u.con == nil {
		return
	}
	rv := u.entryBindings(vals)
	for k, c := range u.con.Ensures {
		g := u.evalClause(c, st, u.entry, nil, rv)
		name := fmt.Sprintf("post#%d", k+1)
		if c.Label != "" {
			name = "post#" + c.Label
		}
		u.oblige(st, name, "post", g, u.clauseProps(c), c, "postcondition: "+c.Text, nil)
	}
	// behavioural subtyping: the implementation of an interface method keeps the interface contract's
	// postconditions (callers through the interface only know that contract)
	for _, ic := range u.ifaceContracts() {
		for k, c := range ic.Ensures {
			g := u.evalClause(c, st, u.entry, nil, rv)
			props := c.Props
			if len(props) == 0 {
				props = ic.Props
			}
			u.oblige(st, fmt.Sprintf("iface#%s#post#%d", ic.Key, k+1), "post", g, props, c, "postcondition of the interface method "+ic.Key+": "+c.Text, nil)
		}
	}
	if u.con.Propagates {
		sig := u.fi.Obj.Type().(*types.Signature)
		n := sig.Results().Len()
		if n > 0 && isErrorLike(sig.Results().At(n-1).Type()) && len(vals) == n {
			ret := vals[n-1].T
			var conj []string
			for _, e := range st.errs {
				conj = append(conj, implies(not(eq(e.term, "0")), not(eq(ret, "0"))))
			}
			props := u.con.PropProps
			if len(props) == 0 {
				props = u.con.Props
			}
			u.oblige(st, "err-propagation", "propagate", and(conj...), props, nil, "an error obtained from a nested call is never dropped: the function returns a non-nil error whenever one of them is non-nil", nil)
		}
	}
	for _, c := range u.con.Asserts {
		if c.At == "return" {
			g := u.evalClause(c, st, u.entry, nil, &roleVals{results: vals})
			u.oblige(st, "at#return#"+fmt.Sprint(u.assertOrdinal(c)), "assert", g, u.clauseProps(c), c, "assertion at every normal return: "+c.Text, nil)
		}
	}
	u.checkFrameAtExit(st)
	u.cover(st, "cover#return", "some return is reachable")
}

func (u *Unit) finish(res *UnitResult) {
	for _, n := range u.oblOrder {
		res.Obligations = append(res.Obligations, u.obls[n])
	}
	res.UsedContracts = sortedKeys(u.usedContracts)
	res.UsedExt = sortedKeys(u.usedExt)
	res.HavocCalls = sortedKeys(u.havocCalls)
	res.Unmodelled = sortedKeys(u.unmodelled)
	res.Notes = u.reg.sortedNotes()
	res.Exits = u.exits
	if u.entryRecv != nil {
		res.Entry = append(res.Entry, entryVal{Role: "recv", Term: u.entryRecv.T, Sort: u.entryRecv.S, Type: u.entryRecv.GT})
	}
	for i, pv := range u.entryParams {
		res.Entry = append(res.Entry, entryVal{Role: fmt.Sprintf("param%d", i), Term: pv.T, Sort: pv.S, Type: pv.GT})
	}
}

// VerifyLemma proves a lemma from the contracts / predicates it mentions.
func VerifyLemma(prog *Program, lm *Contract) (res *UnitResult) {
	u := newUnit(prog, nil, lm)
	u.curFuncKey = lm.Key
	u.pkg = prog.Pkgs[lm.Pkg]
	u.info = u.pkg.TypesInfo
	res = &UnitResult{Key: lm.Key, Reg: u.reg}
	defer func() {
		if r := recover(); r != nil {
			if ee, ok := r.(engineError); ok {
				res.EngineError = ee.msg
			} else {
				panic(r)
			}
		}
		u.finish(res)
	}()
	st := u.initState()
	u.entry = st.clone()
	// lemma parameters: bound by name through the "param:" roles computed here
	if len(lm.Requires)+len(lm.Ensures) == 0 {
		return res
	}
	first := lm.Ensures[0]
	if len(lm.Requires) > 0 {
		first = lm.Requires[0]
	}
	sf := u.specFn(first)
	local := map[string]Val{}
	for _, fl := range sf.Decl.Type.Params.List {
		for _, n := range fl.Names {
			v, _ := u.info.Defs[n].(*types.Var)
			if v == nil {
				continue
			}
			local[n.Name] = u.paramVal(st, n.Name, v.Type())
		}
	}
	evalL := func(c *Clause) string {
		sf := u.specFn(c)
		bind := map[*types.Var]Val{}
		for _, fl := range sf.Decl.Type.Params.List {
			for _, n := range fl.Names {
				if v, ok := u.info.Defs[n].(*types.Var); ok {
					bind[v] = local[n.Name]
				}
			}
		}
		v := u.evalSpecBody(sf, u.info, bind, bind, st, u.entry)
		return v.T
	}
	for _, c := range lm.Requires {
		st.assume(evalL(c))
	}
	u.cover(st, "cover#pre", "lemma hypotheses are satisfiable")
	for k, c := range lm.Ensures {
		u.oblige(st, fmt.Sprintf("lemma#%d", k+1), "lemma", evalL(c), u.clauseProps(c), c, "lemma conclusion: "+c.Text, nil)
	}
	return res
}

// ---------------------------------------------------------------------------
// package-level variables with constant initialisers

func (u *Unit) evalGlobalInit(o *types.Var, gi *globalInitInfo, st *State) (Val, bool) {
	if u.globalCache == nil {
		u.globalCache = map[*types.Var]Val{}
	}
	if v, ok := u.globalCache[o]; ok {
		return v, true
	}
	if u.globalDepth > 4 {
		return Val{}, false
	}
	u.globalDepth++
	defer func() { u.globalDepth-- }()
	restore := u.switchPkg(gi.pkg)
	defer restore()
	savedSpec, savedSafety := u.inSpec, u.noSafety
	u.inSpec, u.noSafety = false, true
	defer func() { u.inSpec, u.noSafety = savedSpec, savedSafety }()
	// package-level objects exist before the function is entered: evaluate the initialiser in a
	// scratch copy of the initial state; the facts it produces only mention fresh global symbols
	// and the initial heap, so they are recorded as axioms
	gs := &State{env: map[*types.Var]Val{}, heap: map[string]string{}, alloc: "alloc_0", epoch: "epoch_0"}
	savedMode := u.globalMode
	u.globalMode = true
	v := u.evalExprExpect(gi.expr, o.Type(), gs)
	v = u.convert(v, o.Type(), gs)
	u.globalMode = savedMode
	for _, f := range gs.pc {
		u.reg.axiom(f)
	}
	u.globalCache[o] = v
	return v, true
}

// ---------------------------------------------------------------------------
// frames (assigns) and type invariants

func (u *Unit) functionWritesTypeInv() bool {
	if u.fi == nil || u.fi.Obj == nil {
		return false
	}
	direct := map[string]bool{}
	shallow := &Program{ModSets: map[*types.Func]map[string]bool{}, Pkgs: u.prog.Pkgs, fvSet: map[string]bool{}}
	collectWrites(shallow, u.info, u.fi.Decl.Body, nil, direct, modsetReg)
	for _, ti := range u.prog.CS.TypeInvs {
		prefix := "F:" + ti.Pkg + "." + ti.Type + "."
		for k := range direct {
			if strings.HasPrefix(k, prefix) && strings.Contains(ti.Clause.Text, "."+strings.TrimPrefix(k, prefix)) {
				return true
			}
		}
	}
	return false
}

// assumeTypeInv: object invariants (typeinv) are assumed whenever an object of
// that type is dereferenced, except inside the functions that write the
// type's fields (they have to establish it).
func (u *Unit) assumeTypeInv(st *State, ref Val, owner types.Type) {
	if u.inSpec || u.writesTypeInv || len(u.prog.CS.TypeInvs) == 0 {
		return
	}
	key := typeKey(owner)
	for _, ti := range u.prog.CS.TypeInvs {
		if ti.Pkg+"."+ti.Type != key {
			continue
		}
		mark := "ti:" + ref.T + "@" + st.heap["F:"+key+".T"]
		if u.tiDone == nil {
			u.tiDone = map[string]bool{}
		}
		// instantiate once per reference term and path prefix (cheap over-instantiation is harmless)
		if u.tiDone[mark+fmt.Sprint(len(st.pc))] {
			continue
		}
		u.tiDone[mark+fmt.Sprint(len(st.pc))] = true
		g := u.evalClause(ti.Clause, st, st, map[string]Val{ti.Var: ref}, nil)
		st.assume(implies(not(eq(ref.T, "0")), g))
	}
}

// checkAssigns: a write to heap location (key, ref) must be permitted by the frame of the
// function under verification when it declares one.
func (u *Unit) checkAssigns(st *State, key string, ref Val, n ast.Node) {
	if u.suppressAssigns || u.con == nil || !u.con.HasAssigns || u.inSpec || len(u.inlineStack) > 0 && false {
		return
	}
	allowed := u.frameAllows(st, u.con, u.entryBindings(nil), u.entry, key, ref.T)
	u.frameCount++
	u.oblige(st, fmt.Sprintf("assigns#%d", u.frameSite(n, key)), "frame", allowed, u.con.Props, nil, "write to "+key+" is permitted by the assigns clause", n)
}

func (u *Unit) frameSite(n ast.Node, key string) int {
	if u.frameSites == nil {
		u.frameSites = map[string]int{}
	}
	id := key
	if n != nil {
		id = fmt.Sprintf("%d|%s", n.Pos(), key)
	}
	if k, ok := u.frameSites[id]; ok {
		return k
	}
	u.frameSites[id] = len(u.frameSites) + 1
	return u.frameSites[id]
}

// frameAllows: formula saying that object `ref` of heap key `key` may be written
// according to contract con (evaluated in the pre-state `pre` with bindings rv).
// Assigns items:  fresh        objects allocated after entry
//                 x.*          every field of the object x
//                 x.f          field f of object x
//                 map(x.f)     the map object stored in x.f
func (u *Unit) frameAllows(st *State, con *Contract, rv *roleVals, pre *State, key, ref string) string {
	var alts []string
	alts = append(alts, "(> "+ref+" "+pre.alloc+")") // freshly allocated objects may always be written
	for _, item := range con.Assigns {
		if item == "fresh" {
			continue
		}
		obj, fields, isMap := u.parseAssignItem(con, item, rv, pre)
		if isMap {
			if strings.HasPrefix(key, "MD:") || strings.HasPrefix(key, "MV:") {
				alts = append(alts, eq(ref, obj))
			}
			continue
		}
		if !strings.HasPrefix(key, "F:") {
			continue
		}
		if fields == nil || fields[key] {
			alts = append(alts, eq(ref, obj))
		}
	}
	return or(alts...)
}

// parseAssignItem resolves "x.f", "x.*" or "map(x.f)" in the pre-state.
func (u *Unit) parseAssignItem(con *Contract, item string, rv *roleVals, pre *State) (obj string, fields map[string]bool, isMap bool) {
	expr := item
	if strings.HasPrefix(item, "map(") && strings.HasSuffix(item, ")") {
		isMap = true
		expr = item[4 : len(item)-1]
	}
	field := ""
	if !isMap {
		i := strings.LastIndex(expr, ".")
		if i < 0 {
			u.fail("malformed assigns item %q in contract %s", item, con.Key)
		}
		field = expr[i+1:]
		expr = expr[:i]
	}
	v := u.evalAssignExpr(con, expr, rv, pre)
	if isMap {
		return v.T, nil, true
	}
	pt, ok := v.GT.Underlying().(*types.Pointer)
	if !ok {
		u.fail("assigns item %q of %s does not denote an object", item, con.Key)
	}
	if field == "*" {
		stt, ok := pt.Elem().Underlying().(*types.Struct)
		if !ok {
			u.fail("assigns item %q: not a struct", item)
		}
		fields = map[string]bool{}
		for i := 0; i < stt.NumFields(); i++ {
			fields[fieldHeapKey(pt.Elem(), stt.Field(i).Name())] = true
			// embedded value structs are part of the object
		}
		return v.T, fields, false
	}
	return v.T, map[string]bool{fieldHeapKey(pt.Elem(), field): true}, false
}

// evalAssignExpr evaluates a dotted path rooted at a parameter/receiver name.
func (u *Unit) evalAssignExpr(con *Contract, expr string, rv *roleVals, pre *State) Val {
	parts := strings.Split(expr, ".")
	fi := u.prog.Funcs[con.Key]
	var obj *types.Func
	if fi != nil {
		obj = fi.Obj
	} else {
		obj = u.prog.lookupInterfaceMethod(con)
	}
	sig := obj.Type().(*types.Signature)
	var cur Val
	found := false
	if r := sig.Recv(); r != nil && rv.recv != nil {
		name := r.Name()
		if name == "" || name == "_" {
			name = "this"
		}
		if name == parts[0] {
			cur, found = *rv.recv, true
			cur.GT = r.Type()
		}
	}
	for i := 0; i < sig.Params().Len() && !found; i++ {
		if sig.Params().At(i).Name() == parts[0] && i < len(rv.params) {
			cur, found = rv.params[i], true
			cur.GT = sig.Params().At(i).Type()
		}
	}
	if !found {
		u.fail("assigns clause of %s: unknown root %q", con.Key, parts[0])
	}
	saved := u.noSafety
	u.noSafety = true
	defer func() { u.noSafety = saved }()
	for _, f := range parts[1:] {
		o, path, _ := types.LookupFieldOrMethod(cur.GT, true, obj.Pkg(), f)
		fv, ok := o.(*types.Var)
		if !ok {
			u.fail("assigns clause of %s: no field %q", con.Key, f)
		}
		tmp := pre.clone()
		cur = u.walkFields(nil, cur, cur.GT, path, tmp)
		cur.GT = fv.Type()
	}
	return cur
}

// havocHeapFramed havocs heap key k for a call, keeping the objects the callee's
// frame excludes (quantified frame axiom).
func (u *Unit) havocHeapFramed(st, pre *State, k string, con *Contract, rv *roleVals) {
	srtK := u.sortOfHeapKey(k)
	if srtK == "" {
		u.reg.note("heap key " + k + " has no known sort (external struct field); not havocked")
		return
	}
	old := u.heapTerm(st, k, srtK)
	u.havocHeap(st, k)
	if con == nil || !con.HasAssigns {
		return
	}
	if strings.HasPrefix(k, "G:") || strings.HasPrefix(k, "C:") {
		return
	}
	nw := st.heap[k]
	u.reg.counter++
	r := fmt.Sprintf("q_r!%d", u.reg.counter)
	allowed := u.frameAllows(st, con, rv, pre, k, r)
	st.assume(fmt.Sprintf("(forall ((%s Int)) (! (=> (not %s) (= (select %s %s) (select %s %s))) :pattern ((select %s %s))))", r, allowed, nw, r, old, r, nw, r))
}

func (u *Unit) checkFrameAtExit(st *State) {}

func sortedStrings(m map[string]bool) []string {
	var out []string
	for k := range m {
		out = append(out, k)
	}
	sort.Strings(out)
	return out
}

// ifaceContracts: contracts of the interface methods the function under verification implements
func (u *Unit) ifaceContracts() []*Contract {
	if u.fi == nil || u.fi.Obj == nil {
		return nil
	}
	u.prog.ifaceOnce.Do(func() {
		u.prog.ifaceOf = map[string][]string{}
		var keys []string
		for k := range u.prog.CS.Funcs {
			keys = append(keys, k)
		}
		sort.Strings(keys)
		for _, k := range keys {
			if u.prog.Funcs[k] != nil {
				continue
			}
			for _, impl := range u.prog.implementationsOf(k) {
				u.prog.ifaceOf[impl] = append(u.prog.ifaceOf[impl], k)
			}
		}
	})
	var out []*Contract
	for _, k := range u.prog.ifaceOf[u.fi.Key] {
		if c := u.prog.CS.Funcs[k]; c != nil {
			out = append(out, c)
			u.usedContracts[k] = true
		}
	}
	return out
}
