package main

// Loading /repo's current working tree (two phases: first the plain packages,
// then the same packages plus a synthetic, overlay-only file per package that
// holds the specification expressions as Go functions so that go/types checks
// them against the real declarations).

import (
	"sync"
	"fmt"
	"regexp"
	"go/ast"
	"go/token"
	"go/types"
	"os"
	"path/filepath"
	"sort"
	"strings"

	"golang.org/x/tools/go/packages"
)

const modPath = "github.com/jmattheis/goverter"

type FuncInfo struct {
	Key  string
	Pkg  *packages.Package
	Decl *ast.FuncDecl
	Obj  *types.Func
	Con  *Contract
	// ordinals of syntactic sites
	loops []ast.Stmt

	expOnce sync.Once
	exp     *Expansion
}

// Expansion of a function: its text with the bodies of the small, contract-less helpers of the same package it calls
// spliced in after the call (each helper once, nesting <= 2). Loop ordinals and "callee#n" sites named in a contract
// are counted over this expansion, so extracting statements into a helper function does not detach the clauses that
// were attached to them (the helper is executed in place anyway, see autoInlinable).
type expSite struct {
	node  ast.Node
	owner *FuncInfo
}

type Expansion struct {
	loops []expSite
	calls []expSite
	// spliced helpers in splice order, and for each the call chain (outermost first) through which it was spliced
	helpers []*FuncInfo
	via     map[*FuncInfo][]expVia
}

type expVia struct {
	in   *FuncInfo // the function whose text contains the call
	call *ast.CallExpr
}

func (p *Program) expansion(fi *FuncInfo) *Expansion {
	fi.expOnce.Do(func() {
		e := &Expansion{via: map[*FuncInfo][]expVia{}}
		done := map[*FuncInfo]bool{fi: true}
		var walk func(owner *FuncInfo, depth int)
		walk = func(owner *FuncInfo, depth int) {
			var stack []ast.Node
			ast.Inspect(owner.Decl.Body, func(n ast.Node) bool {
				if n == nil {
					top := stack[len(stack)-1]
					stack = stack[:len(stack)-1]
					ce, ok := top.(*ast.CallExpr)
					if !ok || depth >= 2 {
						return true
					}
					h := p.funcOf(calleeOf(owner.Pkg.TypesInfo, ce))
					if h == nil || done[h] || h.Pkg != fi.Pkg || h.Decl == nil || h.Decl.Body == nil {
						return true
					}
					if p.CS != nil && p.CS.Funcs[h.Key] != nil {
						return true
					}
					if !p.staticInlinable(h) {
						return true
					}
					done[h] = true
					e.helpers = append(e.helpers, h)
					e.via[h] = append(append([]expVia{}, e.via[owner]...), expVia{in: owner, call: ce})
					walk(h, depth+1)
					return true
				}
				stack = append(stack, n)
				switch n := n.(type) {
				case *ast.ForStmt, *ast.RangeStmt:
					e.loops = append(e.loops, expSite{n, owner})
				case *ast.CallExpr:
					e.calls = append(e.calls, expSite{n, owner})
				}
				return true
			})
		}
		if fi.Decl != nil && fi.Decl.Body != nil {
			walk(fi, 0)
		}
		fi.exp = e
	})
	return fi.exp
}

type Program struct {
	Repo     string
	Fset     *token.FileSet
	Pkgs     map[string]*packages.Package // short key -> package
	Funcs    map[string]*FuncInfo         // key -> function
	ByObj    map[*types.Func]*FuncInfo
	CS       *ContractSet
	SpecFns  map[string]*SpecFn // spec function name -> info
	PredByFn map[*types.Func]*Pred
	SynthSrc map[string]string // pkg short -> synthetic source (for reports)
	inlinable map[string]bool
	inlMu     sync.Mutex
	ownerOnce   sync.Once
	callersOf   map[*types.Func]map[*FuncInfo]bool
	usedAsValue map[*types.Func]bool
	ifaceOnce sync.Once
	ifaceOf   map[string][]string // implementation key -> interface-method contract keys
	ModSets  map[*types.Func]map[string]bool
	AddrTaken map[*types.Func]bool
	fvSet     map[string]bool
	ReadSets  map[*types.Func]map[string]bool
	allWritten map[string]bool
	condEdge  func(callee *types.Func, dk, lk map[string]bool)
	globals   map[*types.Var]*globalInitInfo
}

type SpecFn struct {
	Name   string
	Clause *Clause
	Pkg    string
	Decl   *ast.FuncDecl
	Obj    *types.Func
	// names of parameters in order with the role each one plays
	Roles []string
	Owner string // key of the contract the clause belongs to ("" for predicates, lemmas, invariants)
}

func funcKeyOfDecl(pkgShort string, d *ast.FuncDecl) string {
	if d.Recv != nil && len(d.Recv.List) == 1 {
		return pkgShort + "." + recvTypeName(d.Recv.List[0].Type) + "." + d.Name.Name
	}
	return pkgShort + "." + d.Name.Name
}

func recvTypeName(e ast.Expr) string {
	switch e := e.(type) {
	case *ast.StarExpr:
		return recvTypeName(e.X)
	case *ast.Ident:
		return e.Name
	case *ast.IndexExpr:
		return recvTypeName(e.X)
	case *ast.IndexListExpr:
		return recvTypeName(e.X)
	case *ast.ParenExpr:
		return recvTypeName(e.X)
	}
	return "?"
}

func funcKeyOfObj(f *types.Func) string {
	if f.Pkg() == nil {
		return f.Name()
	}
	f = f.Origin()
	sig := f.Type().(*types.Signature)
	ps := shortPkg(f.Pkg().Path())
	if r := sig.Recv(); r != nil {
		t := r.Type()
		if p, ok := t.(*types.Pointer); ok {
			t = p.Elem()
		}
		t = types.Unalias(t)
		if n, ok := t.(*types.Named); ok {
			return ps + "." + n.Origin().Obj().Name() + "." + f.Name()
		}
		return ps + ".?." + f.Name()
	}
	return ps + "." + f.Name()
}

func loadPkgs(repo string, overlay map[string][]byte) ([]*packages.Package, error) {
	cfg := &packages.Config{
		Mode: packages.NeedName | packages.NeedFiles | packages.NeedSyntax | packages.NeedTypes |
			packages.NeedTypesInfo | packages.NeedImports | packages.NeedDeps,
		Dir:        repo,
		BuildFlags: []string{"-tags", "verif"},
		Overlay:    overlay,
		Env:        append(os.Environ(), "GOFLAGS=-mod=mod", "GOPROXY=off", "GOSUMDB=off", "GOTOOLCHAIN=local"),
	}
	var pats []string
	for d := range pkgDirs {
		if d == "." {
			pats = append(pats, modPath)
		} else {
			pats = append(pats, modPath+"/"+d)
		}
	}
	sort.Strings(pats)
	pkgs, err := packages.Load(cfg, pats...)
	if err != nil {
		return nil, err
	}
	for _, p := range pkgs {
		if len(p.Errors) > 0 {
			var msgs []string
			for _, e := range p.Errors {
				msgs = append(msgs, e.Error())
			}
			return nil, fmt.Errorf("package %s does not type-check:\n  %s", p.PkgPath, strings.Join(msgs, "\n  "))
		}
	}
	return pkgs, nil
}

func LoadProgram(repo, mirror string) (*Program, error) {
	cs, err := loadContracts(repo, mirror)
	if err != nil {
		return nil, err
	}
	// overlay: contract files that are missing in the repo come from the mirror
	overlay := map[string][]byte{}
	for d, short := range pkgDirs {
		if f, ok := cs.Files[short]; ok && !strings.HasPrefix(f, repo+"/") {
			data, _ := os.ReadFile(f)
			overlay[filepath.Join(repo, d, contractFileName)] = data
		}
	}
	pkgs1, err := loadPkgs(repo, overlay)
	if err != nil {
		return nil, err
	}
	prog1 := indexProgram(repo, pkgs1, cs)
	synth, specIndex, err := synthesize(prog1)
	if err != nil {
		return nil, err
	}
	dirOf := map[string]string{}
	for d, short := range pkgDirs {
		dirOf[short] = d
	}
	for short, src := range synth {
		overlay[filepath.Join(repo, dirOf[short], "zz_spec_synth_verif.go")] = []byte(src)
	}
	pkgs2, err := loadPkgs(repo, overlay)
	for attempt := 0; err != nil && attempt < 12; attempt++ {
		// a contract whose clauses no longer type-check against the code (the function's signature or
		// the fields it mentions changed) is stale: drop it, record it, and try again
		// a clause that only fails because a local variable it names no longer exists is re-bound when the
		// baseline knows the variable's type and exactly one new local of that type is in scope (a rename)
		if rebindRenamedLocals(prog1, cs, err.Error(), synth, specIndex) {
			for k := range overlay {
				if strings.HasSuffix(k, "zz_spec_synth_verif.go") {
					delete(overlay, k)
				}
			}
			prog1 = indexProgram(repo, pkgs1, cs)
			synth, specIndex, err = synthesize(prog1)
			if err != nil {
				return nil, err
			}
			for short, src := range synth {
				overlay[filepath.Join(repo, dirOf[short], "zz_spec_synth_verif.go")] = []byte(src)
			}
			pkgs2, err = loadPkgs(repo, overlay)
			continue
		}
		stale := staleOwners(err.Error(), synth, specIndex)
		unused := unusedImports(err.Error())
		if os.Getenv("VERIF_DEBUG_STALE") != "" {
			fmt.Fprintln(os.Stderr, "type errors in the synthetic specification files:", firstLines(err.Error(), 12))
			for short, src := range synth {
				os.WriteFile("/tmp/synth-debug-"+sanitize(short)+".go", []byte(src), 0o644)
			}
		}
		if len(stale) == 0 && len(unused) == 0 {
			break
		}
		for _, k := range unused {
			skipImports[k] = true
		}
		for _, k := range stale {
			if c := cs.Funcs[k]; c != nil {
				cs.Stale = append(cs.Stale, fmt.Sprintf("%s (%s:%d): specification no longer type-checks against the code", k, c.File, c.Line))
				delete(cs.Funcs, k)
			}
		}
		for k := range overlay {
			if strings.HasSuffix(k, "zz_spec_synth_verif.go") {
				delete(overlay, k)
			}
		}
		prog1 = indexProgram(repo, pkgs1, cs)
		synth, specIndex, err = synthesize(prog1)
		if err != nil {
			return nil, err
		}
		for short, src := range synth {
			overlay[filepath.Join(repo, dirOf[short], "zz_spec_synth_verif.go")] = []byte(src)
		}
		pkgs2, err = loadPkgs(repo, overlay)
	}
	if err != nil {
		return nil, fmt.Errorf("specification expressions do not type-check against the code:\n%v\n%s", err, explainSynthErrors(err, synth))
	}
	prog := indexProgram(repo, pkgs2, cs)
	prog.SynthSrc = synth
	prog.SpecFns = map[string]*SpecFn{}
	prog.PredByFn = map[*types.Func]*Pred{}
	// locate spec functions
	for short, p := range prog.Pkgs {
		for _, f := range p.Syntax {
			name := prog.Fset.Position(f.Pos()).Filename
			if !strings.HasSuffix(name, "zz_spec_synth_verif.go") {
				continue
			}
			for _, d := range f.Decls {
				fd, ok := d.(*ast.FuncDecl)
				if !ok {
					continue
				}
				obj, _ := p.TypesInfo.Defs[fd.Name].(*types.Func)
				if sf, ok := specIndex[short+"."+fd.Name.Name]; ok {
					sf.Decl = fd
					sf.Obj = obj
					prog.SpecFns[short+"."+fd.Name.Name] = sf
				}
			}
		}
	}
	for _, pr := range cs.Preds {
		p := prog.Pkgs[pr.Pkg]
		if p == nil {
			continue
		}
		pname := pr.Name
		if i := strings.Index(pname, "["); i >= 0 {
			pname = pname[:i]
		}
		if obj, ok := p.Types.Scope().Lookup(pname).(*types.Func); ok {
			prog.PredByFn[obj] = pr
		}
	}
	prog.computeModSets()
	prog.computeReadSets()
	// the go/types package object (for dynamic type tags of external types)
	for _, p := range pkgs2 {
		for path, imp := range p.Imports {
			if path == "go/types" {
				goTypesPkg = imp.Types
			}
		}
	}
	return prog, nil
}

func explainSynthErrors(err error, synth map[string]string) string {
	return "(synthetic specification files are kept in memory only; run with -dump-synth to write them to out/synth)"
}

func indexProgram(repo string, pkgs []*packages.Package, cs *ContractSet) *Program {
	prog := &Program{Repo: repo, Pkgs: map[string]*packages.Package{}, Funcs: map[string]*FuncInfo{}, ByObj: map[*types.Func]*FuncInfo{}, CS: cs}
	for _, p := range pkgs {
		short := shortPkg(p.PkgPath)
		prog.Pkgs[short] = p
		prog.Fset = p.Fset
		for _, f := range p.Syntax {
			fname := p.Fset.Position(f.Pos()).Filename
			if strings.HasSuffix(fname, "_test.go") || strings.HasSuffix(fname, "zz_spec_synth_verif.go") {
				continue
			}
			for _, d := range f.Decls {
				fd, ok := d.(*ast.FuncDecl)
				if !ok || fd.Body == nil {
					continue
				}
				key := funcKeyOfDecl(short, fd)
				obj, _ := p.TypesInfo.Defs[fd.Name].(*types.Func)
				fi := &FuncInfo{Key: key, Pkg: p, Decl: fd, Obj: obj, Con: cs.Funcs[key]}
				prog.Funcs[key] = fi
				if obj != nil {
					prog.ByObj[obj] = fi
				}
			}
		}
	}
	return prog
}

// lookup of a function by its (possibly instantiated) object
func (p *Program) funcOf(f *types.Func) *FuncInfo {
	if f == nil {
		return nil
	}
	if fi, ok := p.ByObj[f.Origin()]; ok {
		return fi
	}
	return p.Funcs[funcKeyOfObj(f)]
}

// contractOf returns the contract for a function object (also for interface methods).
func (p *Program) contractOf(f *types.Func) *Contract {
	if f == nil || f.Pkg() == nil {
		return nil
	}
	return p.CS.Funcs[funcKeyOfObj(f)]
}

// ---------------------------------------------------------------------------
// Synthesis of the overlay-only specification file.

var knownImports = map[string]string{
	"types": "go/types", "ast": "go/ast", "token": "go/token", "constant": "go/constant",
	"jen":     "github.com/dave/jennifer/jen",
	"xtype":   modPath + "/xtype", "config": modPath + "/config", "method": modPath + "/method",
	"namer":   modPath + "/namer", "builder": modPath + "/builder", "enum": modPath + "/enum",
	"parse":   modPath + "/config/parse", "pkgload": modPath + "/pkgload", "comments": modPath + "/comments",
	"generator": modPath + "/generator", "goverter": modPath, "cli": modPath + "/cli",
	"strings": "strings", "fmt": "fmt", "regexp": "regexp", "filepath": "path/filepath", "sort": "sort",
	"packages": "golang.org/x/tools/go/packages", "os": "os", "flag": "flag", "bytes": "bytes", "bufio": "bufio",
}

// imports that turned out to be unused in a synthetic file (a local variable shadows the package name)
var skipImports = map[string]bool{}

const ghostPrelude = `
// ghost vocabulary (never executed)
func implies(a, b bool) bool { return !a || b }
func iff(a, b bool) bool { return a == b }
func forall[T any](f func(T) bool) bool { panic(0) }
func exists[T any](f func(T) bool) bool { panic(0) }
func forall2[T, U any](f func(T, U) bool) bool { panic(0) }
func forall3[T, U, V any](f func(T, U, V) bool) bool { panic(0) }
func exists2[T, U any](f func(T, U) bool) bool { panic(0) }
func old[T any](x T) T { return x }
func has[K comparable, V any](m map[K]V, k K) bool { _, ok := m[k]; return ok }
func keys[K comparable, V any](m map[K]V) map[K]bool { panic(0) }
func dynIs[T any](x any) bool { panic(0) }
func unboxed[T any](x any) T { panic(0) }
func seqEq[T any](a, b []T) bool { panic(0) }
func typeOK[T any](x T) bool { panic(0) }
func unchangedExcept[T any](p *T, fields ...string) bool { panic(0) }
func same[T any](a, b T) bool { panic(0) }
func setEq[K comparable](a, b map[K]bool) bool { panic(0) }
func ite[T any](c bool, a, b T) T { if c { return a }; return b }
func allocated[T any](x T) bool { panic(0) }
func isFresh[T any](x T) bool { panic(0) }
func sortedStrings(a []string) bool { panic(0) }
func permOf[T any](a, b []T) bool { panic(0) }
func fst[A, B any](a A, b B) A { return a }
func snd[A, B any](a A, b B) B { return b }
func reached(site string) bool { panic(0) }
`

// qualifier used when printing types into the synthetic file of package pkg
func qualifierFor(pkg *types.Package) types.Qualifier {
	return func(other *types.Package) string {
		if other == pkg {
			return ""
		}
		return other.Name()
	}
}

func synthesize(prog *Program) (map[string]string, map[string]*SpecFn, error) {
	bodies := map[string]*strings.Builder{}
	index := map[string]*SpecFn{}
	get := func(pkg string) *strings.Builder {
		b := bodies[pkg]
		if b == nil {
			b = &strings.Builder{}
			bodies[pkg] = b
		}
		return b
	}
	counter := 0
	curOwner := ""
	// every package with a contract file gets a prelude
	for short := range prog.CS.Files {
		get(short)
	}
	for _, pr := range prog.CS.Preds {
		b := get(pr.Pkg)
		if pr.Ghost {
			fmt.Fprintf(b, "func %s(%s) %s { panic(0) } // ghost %s:%d\n", pr.Name, pr.Params, pr.Ret, pr.File, pr.Line)
			continue
		}
		g, err := specToGo(pr.Body)
		if err != nil {
			return nil, nil, fmt.Errorf("%s:%d: %v", pr.File, pr.Line, err)
		}
		pr.GoBody = g
		fmt.Fprintf(b, "func %s(%s) %s { return %s } // pred %s:%d\n", pr.Name, pr.Params, pr.Ret, g, pr.File, pr.Line)
	}
	emit := func(pkgShort string, c *Clause, tparams, params string, roles []string, ret string) error {
		g, err := specToGo(c.Text)
		if err != nil {
			return fmt.Errorf("%s:%d: %v", c.File, c.Line, err)
		}
		c.Go = g
		counter++
		name := fmt.Sprintf("spec_%d", counter)
		c.SpecFunc = pkgShort + "." + name
		fmt.Fprintf(get(pkgShort), "func %s%s(%s) %s { return %s } // %s %s:%d\n", name, tparams, params, ret, g, c.Kind, c.File, c.Line)
		index[pkgShort+"."+name] = &SpecFn{Name: name, Clause: c, Pkg: pkgShort, Roles: roles, Owner: curOwner}
		return nil
	}
	var keys []string
	for k := range prog.CS.Funcs {
		keys = append(keys, k)
	}
	sort.Strings(keys)
	staleNow := map[string]bool{}
	dropAsserts := map[*Clause]bool{}
	defer func() {
		for k := range staleNow {
			delete(prog.CS.Funcs, k)
		}
		for _, con := range prog.CS.Funcs {
			var keep []*Clause
			for _, a := range con.Asserts {
				if !dropAsserts[a] {
					keep = append(keep, a)
				}
			}
			con.Asserts = keep
		}
	}()
	for _, key := range keys {
		con := prog.CS.Funcs[key]
		fi := prog.Funcs[key]
		curOwner = key
		var sigParams, tparams string
		var roles []string
		var pkg *packages.Package
		if fi != nil {
			pkg = fi.Pkg
			sigParams, tparams, roles = signatureParams(fi.Pkg, fi.Obj, fi.Decl, con.ParamNames, con.RecvAlias)
		} else {
			// interface method?
			obj := prog.lookupInterfaceMethod(con)
			if obj == nil {
				// the function was removed or renamed: the contract is stale; its obligations disappear
				// and are reported through the baseline comparison (property no longer established)
				prog.CS.Stale = append(prog.CS.Stale, fmt.Sprintf("%s (%s:%d)", key, con.File, con.Line))
				delete(prog.CS.Funcs, key)
				continue
			}
			pkg = prog.Pkgs[con.Pkg]
			sigParams, tparams, roles = signatureParams(pkg, obj, nil, con.ParamNames, con.RecvAlias)
		}
		for _, c := range con.Requires {
			if err := emit(con.Pkg, c, tparams, sigParams, roles, "bool"); err != nil {
				return nil, nil, err
			}
		}
		for _, c := range con.Ensures {
			if err := emit(con.Pkg, c, tparams, sigParams, roles, "bool"); err != nil {
				return nil, nil, err
			}
		}
		if con.Variant != nil {
			if err := emit(con.Pkg, con.Variant, tparams, sigParams, roles, "int"); err != nil {
				return nil, nil, err
			}
		}
		if con.ErrIgnorable != nil {
			if err := emit(con.Pkg, con.ErrIgnorable, tparams, sigParams, roles, "bool"); err != nil {
				return nil, nil, err
			}
		}
		if con.PanicsIf != nil {
			if err := emit(con.Pkg, con.PanicsIf, tparams, sigParams, roles, "bool"); err != nil {
				return nil, nil, err
			}
		}
		if fi == nil {
			continue
		}
		// loop and at-call clauses see the locals in scope
		loops := collectLoops(prog, fi)
		if os.Getenv("VERIF_SHOW_EXPANSION") != "" {
			if e := prog.expansion(fi); len(e.helpers) > 0 {
				var hs []string
				for _, h := range e.helpers {
					hs = append(hs, h.Key)
				}
				for i, l := range e.loops {
					if l.owner != fi {
						fmt.Fprintf(os.Stderr, "EXPANSION %s: loop %d is in %s (spliced: %s)\n", key, i+1, l.owner.Key, strings.Join(hs, ","))
					}
				}
				pl := 0
				for i, l := range e.loops {
					if l.owner == fi {
						pl++
						if pl != i+1 {
							fmt.Fprintf(os.Stderr, "EXPANSION-MAP %s loop %d -> %d\n", key, pl, i+1)
						}
					}
				}
				proper, all := map[string]int{}, map[string]int{}
				for _, c := range e.calls {
					n := callName(c.node.(*ast.CallExpr))
					all[n]++
					if c.owner == fi {
						proper[n]++
						if proper[n] != all[n] {
							fmt.Fprintf(os.Stderr, "EXPANSION %s: call %s#%d is now %s#%d\n", key, n, proper[n], n, all[n])
						}
					}
				}
			}
		}
		for n, ls := range con.Loops {
			if n < 1 || n > len(loops) {
				prog.CS.Stale = append(prog.CS.Stale, fmt.Sprintf("%s (%s:%d): contract names loop %d but the function has %d loops", key, con.File, con.Line, n, len(loops)))
				staleNow[key] = true
				continue
			}
			lp := loops[n-1]
			lparams, lroles := localsParams(prog, pkg, fi, lp, sigParams, roles)
			for _, c := range ls.Invariants {
				noteLocals(c)
				if err := emit(con.Pkg, c, tparams, lparams, lroles, "bool"); err != nil {
					return nil, nil, err
				}
			}
			if ls.Decreases != nil {
				noteLocals(ls.Decreases)
				if err := emit(con.Pkg, ls.Decreases, tparams, lparams, lroles, "int"); err != nil {
					return nil, nil, err
				}
			}
		}
		for _, c := range con.Asserts {
			if c.At == "return" {
				// checked at every return with the function-level locals in scope
				lparams, lroles := localsParams(prog, pkg, fi, &ast.Ident{NamePos: fi.Decl.Body.Rbrace - 1}, sigParams, roles)
				if err := emit(con.Pkg, c, tparams, lparams, lroles, "bool"); err != nil {
					return nil, nil, err
				}
				continue
			}
			sites := findCallSites(prog, fi, c.At)
			if len(sites) == 0 {
				// the call the assertion is attached to no longer exists: the contract is stale
				prog.CS.Stale = append(prog.CS.Stale, fmt.Sprintf("%s (%s:%d): at-clause names call %q which no longer exists (clause dropped)", key, c.File, c.Line, c.At))
				dropAsserts[c] = true
				continue
			}
			// with a wildcard the locals visible at the LAST matching call are offered (a clause may only use
			// names that are in scope at every matching call; go/types reports otherwise)
			site := sites[0]
			lparams, lroles := localsParams(prog, pkg, fi, site, sigParams, roles)
			// the arguments of the call are visible as arg0, arg1, ...
			if ce, ok := site.(*ast.CallExpr); ok {
				q := qualifierFor(pkg.Types)
				for i, a := range ce.Args {
					at := pkg.TypesInfo.TypeOf(a)
					if at == nil {
						continue
					}
					if _, isTuple := at.(*types.Tuple); isTuple {
						continue
					}
					if b, ok := at.(*types.Basic); ok && b.Info()&types.IsUntyped != 0 {
						at = types.Default(at)
					}
					if at == types.Typ[types.UntypedNil] {
						continue
					}
					lparams += fmt.Sprintf(", arg%d %s", i, types.TypeString(at, q))
					lroles = append(lroles, fmt.Sprintf("callarg:arg%d", i))
				}
			}
			noteLocals(c)
			if err := emit(con.Pkg, c, tparams, lparams, lroles, "bool"); err != nil {
				return nil, nil, err
			}
		}
	}
	curOwner = ""
	for _, lm := range prog.CS.Lemmas {
		for _, c := range append(append([]*Clause{}, lm.Requires...), lm.Ensures...) {
			if err := emit(lm.Pkg, c, "", lm.Params, nil, "bool"); err != nil {
				return nil, nil, err
			}
		}
	}
	for _, ti := range prog.CS.TypeInvs {
		if err := emit(ti.Pkg, ti.Clause, "", ti.Var+" *"+ti.Type, []string{"bind:" + ti.Var}, "bool"); err != nil {
			return nil, nil, err
		}
	}
	for _, rv := range prog.CS.Reveals {
		if err := emit(rv.Pkg, rv.Clause, "", rv.Params, nil, "bool"); err != nil {
			return nil, nil, err
		}
	}
	for _, ax := range prog.CS.Axioms {
		// axioms live in the package of their file
		pkgShort := ""
		for s, f := range prog.CS.Files {
			if f == ax.File {
				pkgShort = s
			}
		}
		if err := emit(pkgShort, ax, "", "", nil, "bool"); err != nil {
			return nil, nil, err
		}
	}
	out := map[string]string{}
	for short, b := range bodies {
		p := prog.Pkgs[short]
		if p == nil {
			continue
		}
		body := b.String()
		var imps []string
		for name, path := range knownImports {
			if path == p.PkgPath || skipImports[short+"|"+path] {
				continue
			}
			if strings.Contains(body, name+".") {
				if name == filepath.Base(path) || true {
					imps = append(imps, fmt.Sprintf("\t%s %q", name, path))
				}
			}
		}
		sort.Strings(imps)
		src := "//go:build verif\n\npackage " + p.Name + "\n\nimport (\n" + strings.Join(imps, "\n") + "\n)\n" + ghostPrelude + "\n" + body
		out[short] = src
	}
	return out, index, nil
}

func (prog *Program) lookupInterfaceMethod(con *Contract) *types.Func {
	p := prog.Pkgs[con.Pkg]
	if p == nil {
		return nil
	}
	parts := strings.Split(con.FuncName, ".")
	if len(parts) != 2 {
		return nil
	}
	tn, _ := p.Types.Scope().Lookup(parts[0]).(*types.TypeName)
	if tn == nil {
		return nil
	}
	it, ok := tn.Type().Underlying().(*types.Interface)
	if !ok {
		return nil
	}
	for i := 0; i < it.NumMethods(); i++ {
		if it.Method(i).Name() == parts[1] {
			return it.Method(i)
		}
	}
	return nil
}

// signatureParams renders receiver, parameters and results of a function as a
// Go parameter list for the synthetic specification functions.
func signatureParams(pkg *packages.Package, obj *types.Func, decl *ast.FuncDecl, names []string, recvAlias string) (params, tparams string, roles []string) {
	sig := obj.Type().(*types.Signature)
	q := qualifierFor(pkg.Types)
	var parts []string
	used := map[string]bool{}
	add := func(name string, t types.Type, role string) {
		if used[name] {
			return
		}
		used[name] = true
		ts := types.TypeString(t, q)
		parts = append(parts, name+" "+ts)
		roles = append(roles, role+":"+name)
	}
	if r := sig.Recv(); r != nil {
		name := r.Name()
		if name == "" || name == "_" {
			name = "this"
		}
		if _, isIface := r.Type().Underlying().(*types.Interface); !isIface {
			add(name, r.Type(), "recv")
		} else {
			add("this", r.Type(), "recv")
		}
		// the receiver is also visible under the uniform name `self` and under the name the contract header gives it
		add("self", r.Type(), "recv")
		if recvAlias != "" {
			add(recvAlias, r.Type(), "recv")
		}
		// type parameters of the receiver
		if rtp := sig.RecvTypeParams(); rtp != nil && rtp.Len() > 0 {
			var tps []string
			for i := 0; i < rtp.Len(); i++ {
				tps = append(tps, rtp.At(i).Obj().Name()+" "+types.TypeString(rtp.At(i).Constraint(), q))
			}
			tparams = "[" + strings.Join(tps, ", ") + "]"
		}
	}
	if tp := sig.TypeParams(); tp != nil && tp.Len() > 0 {
		var tps []string
		for i := 0; i < tp.Len(); i++ {
			tps = append(tps, tp.At(i).Obj().Name()+" "+types.TypeString(tp.At(i).Constraint(), q))
		}
		tparams = "[" + strings.Join(tps, ", ") + "]"
	}
	for i := 0; i < sig.Params().Len(); i++ {
		p := sig.Params().At(i)
		name := p.Name()
		t := p.Type()
		// the contract's own (positional) name first, then the code's name: a renamed parameter does not
		// invalidate the contract
		if i < len(names) && names[i] != "" && names[i] != "_" {
			add(names[i], t, fmt.Sprintf("param%d", i))
		}
		if name == "" || name == "_" {
			name = fmt.Sprintf("p%d", i)
		}
		add(name, t, fmt.Sprintf("param%d", i))
	}
	n := sig.Results().Len()
	for i := 0; i < n; i++ {
		r := sig.Results().At(i)
		if r.Name() != "" && r.Name() != "_" {
			add(r.Name(), r.Type(), fmt.Sprintf("result%d", i))
		}
		add(fmt.Sprintf("result%d", i), r.Type(), fmt.Sprintf("result%d", i))
		if i == 0 {
			add("result", r.Type(), "result0")
		}
		if i == n-1 && isErrorLike(r.Type()) {
			add("err", r.Type(), fmt.Sprintf("result%d", i))
		}
	}
	return strings.Join(parts, ", "), tparams, roles
}

func isErrorLike(t types.Type) bool {
	if n, ok := types.Unalias(t).(*types.Named); ok && n.Obj().Name() == "error" && n.Obj().Pkg() == nil {
		return true
	}
	if p, ok := t.(*types.Pointer); ok {
		if n, ok := p.Elem().(*types.Named); ok && n.Obj().Name() == "Error" {
			return true
		}
	}
	return false
}

// collectLoops returns the for/range statements of a function in source order
// (function literals included).
func collectLoops(prog *Program, fi *FuncInfo) []ast.Stmt {
	var loops []ast.Stmt
	for _, l := range prog.expansion(fi).loops {
		loops = append(loops, l.node.(ast.Stmt))
	}
	return loops
}

// siteOwner: the function (fi itself or a spliced helper) whose text contains the node
func (p *Program) siteOwner(fi *FuncInfo, node ast.Node) *FuncInfo {
	for _, h := range p.expansion(fi).helpers {
		if node.Pos() >= h.Decl.Pos() && node.Pos() <= h.Decl.End() {
			return h
		}
	}
	return fi
}

// localsParams extends the signature parameter list with the locals visible at node.
// siteLocals: clause -> the locals (name -> printed type) offered to it at its site (see rebindAtSite)
var siteLocals = map[*Clause]map[string]string{}
var lastLocals map[string]string

func noteLocals(c *Clause) {
	if c != nil && lastLocals != nil {
		siteLocals[c] = lastLocals
	}
}

func localsParams(prog *Program, pkg *packages.Package, fi *FuncInfo, node ast.Node, sigParams string, sigRoles []string) (string, []string) {
	q := qualifierFor(pkg.Types)
	lastLocals = map[string]string{}
	used := map[string]bool{}
	for _, r := range sigRoles {
		used[r[strings.Index(r, ":")+1:]] = true
	}
	parts := []string{}
	if sigParams != "" {
		parts = append(parts, sigParams)
	}
	roles := append([]string{}, sigRoles...)
	type scopeAt struct {
		s   *types.Scope
		pos token.Pos
		own bool // the loop's own scope: all its names are visible
	}
	var chain []scopeAt
	// for range/for statements, also the loop's own scope (key/value/init vars)
	if s, ok := pkg.TypesInfo.Scopes[node]; ok {
		chain = append(chain, scopeAt{s, node.Pos(), true})
	}
	addChain := func(in *FuncInfo, pos token.Pos) {
		fnScope := pkg.TypesInfo.Scopes[in.Decl.Type]
		for s := pkg.Types.Scope().Innermost(pos); s != nil; s = s.Parent() {
			chain = append(chain, scopeAt{s, pos, false})
			if s == fnScope {
				break
			}
		}
	}
	// a site inside a spliced helper sees the helper's names first, then those visible at the call through which the
	// helper was spliced, and so on outwards (see Expansion)
	owner := prog.siteOwner(fi, node)
	addChain(owner, node.Pos())
	// variables declared by the very statement that contains the call through which a helper was spliced
	// (`xs := helper(...)`) have no value yet while the helper runs
	notYet := map[*types.Var]bool{}
	if owner != fi {
		via := prog.expansion(fi).via[owner]
		for i := len(via) - 1; i >= 0; i-- {
			addChain(via[i].in, via[i].call.Pos())
			call := via[i].call
			ast.Inspect(via[i].in.Decl.Body, func(n ast.Node) bool {
				if as, ok := n.(*ast.AssignStmt); ok && as.Tok == token.DEFINE && as.Pos() <= call.Pos() && call.End() <= as.End() {
					for _, l := range as.Lhs {
						if id, ok := l.(*ast.Ident); ok {
							if v, ok := pkg.TypesInfo.Defs[id].(*types.Var); ok {
								notYet[v] = true
							}
						}
					}
				}
				return true
			})
		}
	}
	for _, sa := range chain {
		names := sa.s.Names()
		for _, n := range names {
			v, ok := sa.s.Lookup(n).(*types.Var)
			if !ok || used[n] || n == "_" || notYet[v] {
				continue
			}
			if !sa.own && v.Pos() >= sa.pos {
				continue
			}
			used[n] = true
			ts := types.TypeString(v.Type(), q)
			parts = append(parts, n+" "+ts)
			roles = append(roles, "local:"+n)
			lastLocals[n] = ts
		}
	}
	// ghost loop variables
	if !used["idx"] {
		parts = append(parts, "idx int")
		roles = append(roles, "ghost:idx")
	}
	if rs, ok := node.(*ast.RangeStmt); ok {
		if mt, ok := pkg.TypesInfo.TypeOf(rs.X).Underlying().(*types.Map); ok && !used["seen"] {
			parts = append(parts, "seen map["+types.TypeString(mt.Key(), q)+"]bool")
			roles = append(roles, "ghost:seen")
		}
	}
	return strings.Join(parts, ", "), roles
}

// findCallSite locates the n-th call (source order) of a callee named like "gen.Assign" or "Assign".
// findCallSites: all calls matching "name#n" (the n-th) or "name#*" (every call of that name)
func findCallSites(prog *Program, fi *FuncInfo, at string) []ast.Node {
	if out := findCallSitesMatching(prog, fi, at, false); len(out) > 0 {
		return out
	}
	// no call is written exactly like that: the variable the call goes through may have been renamed
	// (`source.Type.findAllFields` -> `fieldSource.Type.findAllFields`). Sites are then matched by everything after the
	// first element of the selector chain. Only used when the exact spelling matches nothing.
	return findCallSitesMatching(prog, fi, at, true)
}

func siteNameMatches(ce *ast.CallExpr, name string, loose bool) bool {
	cn := callName(ce)
	if cn == name {
		return true
	}
	if !loose {
		return false
	}
	i, j := strings.Index(name, "."), strings.Index(cn, ".")
	if i < 0 || j < 0 {
		return false
	}
	return name[i:] == cn[j:] && strings.Count(name, ".") == strings.Count(cn, ".")
}

func findCallSitesMatching(prog *Program, fi *FuncInfo, at string, loose bool) []ast.Node {
	if strings.HasSuffix(at, "#*") {
		name := strings.TrimSuffix(at, "#*")
		var out []ast.Node
		for _, c := range prog.expansion(fi).calls {
			if ce := c.node.(*ast.CallExpr); siteNameMatches(ce, name, loose) {
				out = append(out, ce)
			}
		}
		return out
	}
	name, n := at, 1
	if i := strings.Index(at, "#"); i >= 0 {
		name = at[:i]
		fmt.Sscanf(at[i+1:], "%d", &n)
	}
	count := 0
	for _, c := range prog.expansion(fi).calls {
		if ce := c.node.(*ast.CallExpr); siteNameMatches(ce, name, loose) {
			count++
			if count == n {
				return []ast.Node{ce}
			}
		}
	}
	return nil
}

func callName(ce *ast.CallExpr) string {
	switch f := ce.Fun.(type) {
	case *ast.Ident:
		return f.Name
	case *ast.SelectorExpr:
		if chain, ok := selectorChain(f.X); ok {
			return chain + "." + f.Sel.Name
		}
		return f.Sel.Name
	}
	return ""
}

// selectorChain renders a.b.c when the expression is a chain of identifiers
func selectorChain(e ast.Expr) (string, bool) {
	switch e := e.(type) {
	case *ast.Ident:
		return e.Name, true
	case *ast.SelectorExpr:
		if c, ok := selectorChain(e.X); ok {
			return c + "." + e.Sel.Name, true
		}
	}
	return "", false
}

// staleOwners maps type errors inside the synthetic specification files back to the contracts
// whose clauses caused them.
func staleOwners(errText string, synth map[string]string, index map[string]*SpecFn) []string {
	set := map[string]bool{}
	for _, sf := range specFnsAt(errText, synth, index) {
		if sf.Owner != "" {
			set[sf.Owner] = true
		}
	}
	var out []string
	for k := range set {
		out = append(out, k)
	}
	sort.Strings(out)
	return out
}

// specFnsAt: the specification functions at the positions mentioned in a type-checker message
func specFnsAt(errText string, synth map[string]string, index map[string]*SpecFn) []*SpecFn {
	var out []*SpecFn
	seen := map[*SpecFn]bool{}
	re := regexp.MustCompile(`([^\s:]+)/zz_spec_synth_verif\.go:(\d+):\d+`)
	for _, m := range re.FindAllStringSubmatch(errText, -1) {
		dir := m[1]
		var short string
		for d, sh := range pkgDirs {
			if d == "." {
				continue
			}
			if strings.HasSuffix(dir, "/"+d) {
				if len(d) > len(short) || short == "" {
					short = sh
				}
			}
		}
		if short == "" {
			short = "goverter"
		}
		src, ok := synth[short]
		if !ok {
			continue
		}
		var ln int
		fmt.Sscanf(m[2], "%d", &ln)
		lines := strings.Split(src, "\n")
		if ln < 1 || ln > len(lines) {
			continue
		}
		line := lines[ln-1]
		if !strings.HasPrefix(line, "func spec_") {
			continue
		}
		name := line[len("func "):]
		if i := strings.IndexAny(name, "[("); i >= 0 {
			name = name[:i]
		}
		if sf, ok := index[short+"."+name]; ok && !seen[sf] {
			seen[sf] = true
			out = append(out, sf)
		}
	}
	return out
}

func unusedImports(errText string) []string {
	re := regexp.MustCompile(`([^\s:]+)/zz_spec_synth_verif\.go:\d+:\d+: "([^"]+)" imported and not used`)
	var out []string
	for _, m := range re.FindAllStringSubmatch(errText, -1) {
		dir := m[1]
		short := "goverter"
		best := 0
		for d, sh := range pkgDirs {
			if d != "." && strings.HasSuffix(dir, "/"+d) && len(d) > best {
				short, best = sh, len(d)
			}
		}
		out = append(out, short+"|"+m[2])
	}
	return out
}

// BaselineLocals is set by main from baseline_obligations.json (contract key -> local name -> type)
var BaselineLocals map[string]map[string]string

// rebound: contract key -> old name -> true (each name is re-bound at most once)
var rebound = map[string]map[string]bool{}

// rebindAtSite: see rebindRenamedLocals. The candidates are the locals offered to the clause at its site (siteLocals)
// that have the recorded type and that the baseline does not know; exactly one must exist.
var reboundAt = map[*Clause]map[string]bool{}

func rebindAtSite(cs *ContractSet, pos, owner, name, want string, synth map[string]string, index map[string]*SpecFn) bool {
	changed := false
	for _, sf := range specFnsAt(pos, synth, index) {
		c := sf.Clause
		if c == nil || sf.Owner != owner || reboundAt[c][name] {
			continue
		}
		locals := siteLocals[c]
		if _, visible := locals[name]; visible || locals == nil {
			continue
		}
		var cand []string
		for n, ts := range locals {
			if _, known := BaselineLocals[owner][n]; known {
				continue
			}
			if ts == want {
				cand = append(cand, n)
			}
		}
		if len(cand) != 1 {
			continue
		}
		wordRe := regexp.MustCompile(`(^|[^.\w])` + regexp.QuoteMeta(name) + `($|[^\w])`)
		for wordRe.MatchString(c.Text) {
			c.Text = wordRe.ReplaceAllString(c.Text, "${1}"+cand[0]+"${2}")
		}
		if reboundAt[c] == nil {
			reboundAt[c] = map[string]bool{}
		}
		reboundAt[c][name] = true
		cs.Rebound = append(cs.Rebound, fmt.Sprintf("%s (%s:%d): local %s is not visible at the clause's site any more; %s is the only new local of type %s there: clause re-bound", owner, c.File, c.Line, name, cand[0], want))
		changed = true
	}
	return changed
}

func rebindRenamedLocals(prog *Program, cs *ContractSet, errText string, synth map[string]string, index map[string]*SpecFn) bool {
	if len(BaselineLocals) == 0 {
		return false
	}
	re := regexp.MustCompile(`([^\s:]+/zz_spec_synth_verif\.go:\d+:\d+): undefined: (\w+)`)
	changed := false
	for _, m := range re.FindAllStringSubmatch(errText, -1) {
		owners := staleOwners(m[1], synth, index)
		if len(owners) != 1 {
			continue
		}
		owner, name := owners[0], m[2]
		want, ok := BaselineLocals[owner][name]
		if !ok || rebound[owner][name] {
			continue
		}
		fi := prog.Funcs[owner]
		con := cs.Funcs[owner]
		if fi == nil || con == nil || fi.Decl.Body == nil {
			continue
		}
		// candidates: locals of the function with the wanted type whose names the baseline did not know
		q := qualifierFor(fi.Pkg.Types)
		cand := map[string]bool{}
		stillThere := false
		ast.Inspect(fi.Decl.Body, func(n ast.Node) bool {
			id, ok := n.(*ast.Ident)
			if !ok {
				return true
			}
			v, ok := fi.Pkg.TypesInfo.Defs[id].(*types.Var)
			if !ok || v.IsField() {
				return true
			}
			if v.Name() == name {
				stillThere = true
			}
			if _, known := BaselineLocals[owner][v.Name()]; known {
				return true
			}
			if types.TypeString(v.Type(), q) == want {
				cand[v.Name()] = true
			}
			return true
		})
		if stillThere || len(cand) != 1 {
			// the name still exists somewhere in the function (or several candidates do), but not at the site of
			// this clause -- typically the loop or call the clause is attached to was moved into a helper whose
			// variables are named differently: re-bind this one clause among the locals visible at its site
			if rebindAtSite(cs, m[1], owner, name, want, synth, index) {
				changed = true
			}
			continue
		}
		var neu string
		for c := range cand {
			neu = c
		}
		wordRe := regexp.MustCompile(`(^|[^.\w])` + regexp.QuoteMeta(name) + `($|[^\w])`)
		fix := func(c *Clause) {
			if c == nil {
				return
			}
			for wordRe.MatchString(c.Text) {
				c.Text = wordRe.ReplaceAllString(c.Text, "${1}"+neu+"${2}")
			}
		}
		for _, c := range con.Requires {
			fix(c)
		}
		for _, c := range con.Ensures {
			fix(c)
		}
		for _, c := range con.Asserts {
			fix(c)
		}
		for _, ls := range con.Loops {
			for _, c := range ls.Invariants {
				fix(c)
			}
			fix(ls.Decreases)
		}
		for i, mode := range con.MapRange {
			con.MapRange[i] = wordRe.ReplaceAllString(mode, "${1}"+neu+"${2}")
		}
		if rebound[owner] == nil {
			rebound[owner] = map[string]bool{}
		}
		rebound[owner][name] = true
		cs.Rebound = append(cs.Rebound, fmt.Sprintf("%s: local %s was renamed to %s in the code (same type %s, only new local of that type): contract re-bound", owner, name, neu, want))
		changed = true
	}
	return changed
}
