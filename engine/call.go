package main

// Calls: builtins, conversions, closures (inlined), module functions (modular,
// by contract), external library functions (assumed contracts, see extlib.go).

import (
	"fmt"
	"go/ast"
	"go/token"
	"go/types"
	"strings"

	"golang.org/x/tools/go/packages"
)

func (u *Unit) staticCallee(call *ast.CallExpr) *types.Func {
	fun := ast.Unparen(call.Fun)
	switch f := fun.(type) {
	case *ast.IndexExpr:
		fun = f.X
	case *ast.IndexListExpr:
		fun = f.X
	}
	switch f := fun.(type) {
	case *ast.Ident:
		if fn, ok := u.info.Uses[f].(*types.Func); ok {
			return fn
		}
	case *ast.SelectorExpr:
		if sel, ok := u.info.Selections[f]; ok {
			if sel.Kind() == types.MethodVal {
				return sel.Obj().(*types.Func)
			}
			return nil
		}
		if fn, ok := u.info.Uses[f.Sel].(*types.Func); ok {
			return fn
		}
	}
	return nil
}

func (u *Unit) evalCall(call *ast.CallExpr, st *State) []Val {
	if !u.inSpec {
		st.markReached(call)
	}
	if c, ok := u.forbidSites[call]; ok && !u.inSpec {
		f := strings.Fields(c.Text)
		u.oblige(st, "forbid#"+u.site(call, "call#"+f[0]), "assert", "false", u.clauseProps(c), c, "no call of "+f[0]+" is executed here: "+strings.Join(f[1:], " "), call)
	}
	if cs, ok := u.atAsserts[call]; ok && !u.inSpec {
		// the call's arguments are visible to the assertion as arg0, arg1, ...
		argBind := map[string]Val{}
		savedNS := u.noSafety
		u.noSafety = true
		for i, a := range call.Args {
			if tv, ok := u.info.Types[a]; ok && tv.Type != nil {
				if _, isTuple := tv.Type.(*types.Tuple); isTuple {
					continue
				}
			}
			// evaluated once, on the real state; the call itself reuses the value
			av := u.evalExpr(a, st)
			if u.argCache == nil {
				u.argCache = map[ast.Expr]Val{}
			}
			u.argCache[a] = av
			if av.S == "nil" {
				continue
			}
			argBind[fmt.Sprintf("arg%d", i)] = av
		}
		u.noSafety = savedNS
		for _, c := range cs {
			g := u.evalClause(c, st, u.entry, argBind, nil)
			u.oblige(st, "at#"+c.At+"#"+fmt.Sprint(u.assertOrdinal(c)), "assert", g, u.clauseProps(c), c, "in-body assertion before call "+c.At+": "+c.Text, call)
			// not assumed afterwards: assertions carry different property tags and must not lean on each other
		}
	}
	// conversion
	if tv, ok := u.info.Types[call.Fun]; ok && tv.IsType() {
		v := u.evalExpr(call.Args[0], st)
		return []Val{u.conversion(v, tv.Type, st, call)}
	}
	fun := ast.Unparen(call.Fun)
	// builtins
	if id, ok := fun.(*ast.Ident); ok {
		if b, ok := u.info.Uses[id].(*types.Builtin); ok {
			return u.evalBuiltin(b.Name(), call, st)
		}
	}
	// immediately applied call result: ToAssignable(a)(f(...))
	if inner, ok := fun.(*ast.CallExpr); ok {
		return u.evalCurried(inner, call, st)
	}
	// closure bound to a local
	if id, ok := fun.(*ast.Ident); ok {
		if v, ok := u.info.Uses[id].(*types.Var); ok {
			fv := u.evalIdent(id, st)
			if fv.Closure != nil {
				args := u.evalArgs(call, typeOf(u.info, id).Underlying().(*types.Signature), st)
				return u.inlineClosure(fv.Closure, args, st, id.Name)
			}
			if fv.FuncObj != nil {
				args := u.evalArgs(call, fv.FuncObj.Type().(*types.Signature), st)
				return u.callFunc(call, fv.FuncObj, fv.Recv, args, st)
			}
			sig := v.Type().Underlying().(*types.Signature)
			args := u.evalArgs(call, sig, st)
			return u.callFuncValue(call, fv, v.Name(), sig, args, st)
		}
	}
	f := u.staticCallee(call)
	if f != nil && u.isGhostFn(f) {
		return u.evalGhostCall(call, f, st)
	}
	if f == nil {
		// call through a function-typed field or expression
		fv := u.evalExpr(fun, st)
		sig, ok := typeOf(u.info, fun).Underlying().(*types.Signature)
		if !ok {
			u.fail("call of non-function at %s", u.pos(call))
		}
		args := u.evalArgs(call, sig, st)
		if fv.FuncObj != nil {
			return u.callFunc(call, fv.FuncObj, fv.Recv, args, st)
		}
		name := "expr"
		if se, ok := fun.(*ast.SelectorExpr); ok {
			name = se.Sel.Name
		}
		return u.callFuncValue(call, fv, name, sig, args, st)
	}
	sig := f.Type().(*types.Signature)
	var recv *Val
	if sig.Recv() != nil {
		se := fun.(*ast.SelectorExpr)
		sel := u.info.Selections[se]
		rv := u.evalRecv(se, sel, st)
		recv = &rv
	}
	args := u.evalArgs(call, sig, st)
	if st.dead() {
		return u.deadResults(sig)
	}
	return u.callFunc(call, f, recv, args, st)
}

func (u *Unit) deadResults(sig *types.Signature) []Val {
	var out []Val
	for i := 0; i < sig.Results().Len(); i++ {
		t := sig.Results().At(i).Type()
		srt := u.reg.sortOf(t)
		out = append(out, Val{T: u.reg.zero(srt), S: srt, GT: t})
	}
	return out
}

// evalRecv evaluates the receiver of a method call, following embedded fields
// and adjusting pointer/value receivers.
func (u *Unit) evalRecv(se *ast.SelectorExpr, sel *types.Selection, st *State) Val {
	base := u.evalExpr(se.X, st)
	baseT := typeOf(u.info, se.X)
	path := sel.Index()
	if fo, ok := sel.Obj().(*types.Func); ok && (fo.Pkg() == nil || !strings.HasPrefix(fo.Pkg().Path(), modPath)) {
		// method of an external type: the receiver is the static expression; a nil
		// receiver panics unless the method is known to be nil-safe
		if base.S == "Int" && !extNilSafeRecv[extKey(fo)] && !u.inSpec {
			if _, isPtr := types.Unalias(baseT).Underlying().(*types.Pointer); isPtr || isInterface(baseT) {
				u.nilCheck(st, se, base)
			}
		}
		return base
	}
	cur := base
	curT := baseT
	if len(path) > 1 {
		cur = u.walkFields(se, base, baseT, path[:len(path)-1], st)
		// type after walking
		for _, idx := range path[:len(path)-1] {
			owner := curT
			if p, ok := types.Unalias(curT).Underlying().(*types.Pointer); ok {
				owner = p.Elem()
			}
			curT = owner.Underlying().(*types.Struct).Field(idx).Type()
		}
	}
	f := sel.Obj().(*types.Func)
	rsig := f.Type().(*types.Signature)
	if rsig.Recv() == nil {
		return cur
	}
	rt := rsig.Recv().Type()
	_, wantPtr := rt.Underlying().(*types.Pointer)
	_, havePtr := types.Unalias(curT).Underlying().(*types.Pointer)
	if isInterface(curT) {
		return cur
	}
	switch {
	case wantPtr && !havePtr:
		// address of an addressable struct value (&x).M(): value-result reference
		r := u.newRef(st, "recv")
		pv := Val{T: r, S: "Int", GT: types.NewPointer(curT)}
		u.storeDerefNoFrame(st, pv, curT, cur)
		pv.Addr = se.X
		if len(path) > 1 {
			pv.Addr = nil
		}
		return pv
	case !wantPtr && havePtr:
		u.nilCheck(st, se, cur)
		return u.loadDeref(st, cur, types.Unalias(curT).Underlying().(*types.Pointer).Elem())
	}
	return cur
}

func (u *Unit) evalArgs(call *ast.CallExpr, sig *types.Signature, st *State) []Val {
	np := sig.Params().Len()
	var args []Val
	// f(g()) with multi-value g
	if len(call.Args) == 1 && np > 1 {
		if _, ok := ast.Unparen(call.Args[0]).(*ast.CallExpr); ok {
			vals := u.evalMulti(call.Args[0], st)
			if len(vals) == np {
				for i := range vals {
					vals[i] = u.convert(vals[i], sig.Params().At(i).Type(), st)
				}
				return vals
			}
		}
	}
	for i, a := range call.Args {
		var pt types.Type
		variadicElem := false
		if sig.Variadic() && i >= np-1 {
			pt = sig.Params().At(np - 1).Type()
			if !call.Ellipsis.IsValid() {
				pt = pt.(*types.Slice).Elem()
				variadicElem = true
			}
		} else if i < np {
			pt = sig.Params().At(i).Type()
		}
		_ = variadicElem
		var v Val
		if cv, ok := u.argCache[a]; ok {
			v = cv
			delete(u.argCache, a)
		} else {
			v = u.evalExprExpect(a, pt, st)
		}
		if pt != nil {
			if _, isTP := types.Unalias(pt).(*types.TypeParam); !isTP && !containsTypeParam(pt) {
				v = u.convert(v, pt, st)
			} else if v.S == "nil" {
				v = u.convert(v, typeOf(u.info, a), st)
			}
		}
		args = append(args, v)
	}
	// pack variadic arguments
	if sig.Variadic() && !call.Ellipsis.IsValid() {
		fixed := np - 1
		st0 := sig.Params().At(np - 1).Type().(*types.Slice)
		var elemT types.Type = st0.Elem()
		if containsTypeParam(elemT) && len(args) > fixed {
			elemT = args[fixed].GT
		}
		sliceT := types.NewSlice(elemT)
		srt := u.reg.sortOf(sliceT)
		elem := u.reg.sliceElem[srt]
		arr := "emptyarr_" + mangleSort(elem)
		u.reg.declare(arr, nil, "(Array Int "+elem+")")
		var elems []Val
		for i, v := range args[fixed:] {
			if v.S != elem {
				u.fail("variadic argument sort mismatch at %s: %s vs %s", u.pos(call), v.S, elem)
			}
			arr = fmt.Sprintf("(store %s %d %s)", arr, i, v.T)
			elems = append(elems, v)
		}
		n := len(args) - fixed
		packed := Val{T: fmt.Sprintf("(mk_%s %s %d %s)", srt, arr, n, boolLit(n == 0)), S: srt, GT: sliceT, Elems: elems}
		args = append(args[:fixed:fixed], packed)
	}
	return args
}

func boolLit(b bool) string {
	if b {
		return "true"
	}
	return "false"
}

func containsTypeParam(t types.Type) bool {
	found := false
	var walk func(t types.Type, depth int)
	walk = func(t types.Type, depth int) {
		if found || depth > 6 || t == nil {
			return
		}
		switch t := types.Unalias(t).(type) {
		case *types.TypeParam:
			found = true
		case *types.Pointer:
			walk(t.Elem(), depth+1)
		case *types.Slice:
			walk(t.Elem(), depth+1)
		case *types.Array:
			walk(t.Elem(), depth+1)
		case *types.Map:
			walk(t.Key(), depth+1)
			walk(t.Elem(), depth+1)
		case *types.Named:
			if ta := t.TypeArgs(); ta != nil {
				for i := 0; i < ta.Len(); i++ {
					walk(ta.At(i), depth+1)
				}
			}
		case *types.Signature:
			for i := 0; i < t.Params().Len(); i++ {
				walk(t.Params().At(i).Type(), depth+1)
			}
			for i := 0; i < t.Results().Len(); i++ {
				walk(t.Results().At(i).Type(), depth+1)
			}
		}
	}
	walk(t, 0)
	return found
}

func (u *Unit) conversion(v Val, to types.Type, st *State, n ast.Node) Val {
	if v.S == "nil" {
		return u.convert(v, to, st)
	}
	want := u.reg.sortOf(to)
	if isInterface(to) {
		return u.convert(v, to, st)
	}
	if want == v.S {
		nv := v
		nv.GT = to
		return nv
	}
	switch {
	case want == "Real" && v.S == "Int":
		return Val{T: "(to_real " + v.T + ")", S: "Real", GT: to}
	case want == "Int" && v.S == "Real":
		return Val{T: "(to_int " + v.T + ")", S: "Int", GT: to}
	case want == "String" && v.S == "Int":
		return Val{T: "(str.from_code " + v.T + ")", S: "String", GT: to}
	}
	u.unmodelled[fmt.Sprintf("conversion %s -> %s at %s", v.S, want, u.pos(n))] = true
	return Val{T: u.reg.fresh("conv", want), S: want, GT: to}
}

func (u *Unit) evalBuiltin(name string, call *ast.CallExpr, st *State) []Val {
	switch name {
	case "len", "cap":
		x := u.evalExpr(call.Args[0], st)
		if x.S == "Int" {
			// map length: uninterpreted cardinality
			mt, ok := typeOf(u.info, call.Args[0]).Underlying().(*types.Map)
			if !ok {
				u.fail("len of unsupported value at %s", u.pos(call))
			}
			return []Val{u.mapLen(st, x, mt)}
		}
		return []Val{{T: u.sliceLen(x), S: "Int", GT: tInt}}
	case "append":
		s := u.evalExpr(call.Args[0], st)
		st0 := typeOf(u.info, call).Underlying().(*types.Slice)
		s = u.convert(s, typeOf(u.info, call), st)
		if call.Ellipsis.IsValid() {
			o := u.convert(u.evalExpr(call.Args[1], st), typeOf(u.info, call), st)
			return []Val{u.appendSlice(st, s, o)}
		}
		cur := s
		for _, a := range call.Args[1:] {
			v := u.convert(u.evalExprExpect(a, st0.Elem(), st), st0.Elem(), st)
			prev := cur
			cur = u.appendOne(cur, v)
			if u.inCommute {
				bp := u.bagOf(prev)
				st.assume(eq(u.bagOf(cur), "(store "+bp+" "+v.T+" (+ (select "+bp+" "+v.T+") 1))"))
			}
		}
		if len(s.Elems) > 0 || strings.HasSuffix(s.T, " 0 true)") || strings.HasSuffix(s.T, " 0 false)") {
			// keep the literal element list when it is fully known
			if len(s.Elems) == lenLiteral(s.T) {
				els := append([]Val(nil), s.Elems...)
				for _, a := range call.Args[1:] {
					_ = a
				}
				_ = els
			}
		}
		return []Val{cur}
	case "make":
		t := typeOf(u.info, call.Args[0])
		switch ut := t.Underlying().(type) {
		case *types.Slice:
			srt := u.reg.sortOf(t)
			n := u.evalExpr(call.Args[1], st)
			elem := u.reg.sliceElem[srt]
			arr := fmt.Sprintf("((as const (Array Int %s)) %s)", elem, u.reg.zero(elem))
			if !u.noSafety && !u.inSpec {
				u.oblige(st, u.site(call, "make"), "index", "(>= "+n.T+" 0)", []string{"C13"}, nil, "make with negative length", call)
			}
			return []Val{{T: fmt.Sprintf("(mk_%s %s %s false)", srt, arr, n.T), S: srt, GT: t}}
		case *types.Map:
			r := u.newRef(st, "map")
			u.mapTypeFact(st, r, t)
			ks := u.reg.sortOf(ut.Key())
			mdKey := "MD:" + ks
			hd := u.heapTerm(st, mdKey, u.sortOfHeapKey(mdKey))
			st.heap[mdKey] = "(store " + hd + " " + r + " ((as const (Array " + ks + " Bool)) false))"
			return []Val{{T: r, S: "Int", GT: t}}
		}
		u.fail("unsupported make at %s", u.pos(call))
	case "new":
		t := typeOf(u.info, call.Args[0])
		r := u.newRef(st, "new")
		pv := Val{T: r, S: "Int", GT: types.NewPointer(t)}
		srt := u.reg.sortOf(t)
		u.storeDerefNoFrame(st, pv, t, Val{T: u.reg.zero(srt), S: srt, GT: t})
		return []Val{pv}
	case "delete":
		m := u.evalExpr(call.Args[0], st)
		mt := typeOf(u.info, call.Args[0]).Underlying().(*types.Map)
		k := u.convert(u.evalExpr(call.Args[1], st), mt.Key(), st)
		u.mapDelete(st, m, k, mt)
		return nil
	case "panic":
		u.doPanic(call, st)
		return nil
	case "min", "max":
		a := u.evalExpr(call.Args[0], st)
		b := u.evalExpr(call.Args[1], st)
		c := "(<= " + a.T + " " + b.T + ")"
		if name == "max" {
			c = "(>= " + a.T + " " + b.T + ")"
		}
		return []Val{{T: ite(c, a.T, b.T), S: a.S, GT: a.GT}}
	}
	u.fail("unsupported builtin %s at %s", name, u.pos(call))
	return nil
}

func lenLiteral(t string) int { return -1 }

func (u *Unit) mapLen(st *State, m Val, mt *types.Map) Val {
	ks := u.reg.sortOf(mt.Key())
	fn := "card_" + mangleSort(ks)
	setSort := "(Array " + ks + " Bool)"
	u.reg.declare(fn, []string{setSort}, "Int")
	dom := u.mapDom(st, m, mt)
	c := "(" + fn + " " + dom + ")"
	st.assume("(>= " + c + " 0)")
	empty := "((as const " + setSort + ") false)"
	st.assume(eq(eq(c, "0"), eq(dom, empty)))
	return Val{T: ite(eq(m.T, "0"), "0", c), S: "Int", GT: tInt}
}

func (u *Unit) appendOne(s, v Val) Val {
	l := "(len_" + s.S + " " + s.T + ")"
	nv := Val{T: fmt.Sprintf("(mk_%s (store (arr_%s %s) %s %s) (+ %s 1) false)", s.S, s.S, s.T, l, v.T, l), S: s.S, GT: s.GT}
	return nv
}

func (u *Unit) appendSlice(st *State, a, b Val) Val {
	// result: fresh slice related element-wise to a ++ b
	elem := u.reg.sliceElem[a.S]
	la := "(len_" + a.S + " " + a.T + ")"
	lb := "(len_" + b.S + " " + b.T + ")"
	na := u.reg.fresh("cat", "(Array Int "+elem+")")
	st.assume(fmt.Sprintf("(forall ((j Int)) (! (=> (and (<= 0 j) (< j %s)) (= (select %s j) (select (arr_%s %s) j))) :pattern ((select %s j))))", la, na, a.S, a.T, na))
	st.assume(fmt.Sprintf("(forall ((j Int)) (! (=> (and (<= 0 j) (< j %s)) (= (select %s (+ %s j)) (select (arr_%s %s) j))) :pattern ((select (arr_%s %s) j))))", lb, na, la, b.S, b.T, b.S, b.T))
	isnil := and("(nil_"+a.S+" "+a.T+")", eq(lb, "0"))
	return Val{T: fmt.Sprintf("(mk_%s %s (+ %s %s) %s)", a.S, na, la, lb, isnil), S: a.S, GT: a.GT}
}

// ---------------------------------------------------------------------------
// closures and inlining

func (u *Unit) inlineClosure(c *closure, args []Val, st *State, name string) []Val {
	sig := typeOf(u.info, c.lit).Underlying().(*types.Signature)
	var params []*types.Var
	for _, f := range c.lit.Type.Params.List {
		for _, n := range f.Names {
			v, _ := u.info.Defs[n].(*types.Var)
			params = append(params, v)
		}
	}
	return u.inlineBody(c.lit.Body, c.lit.Type, sig, params, args, st, "closure:"+name)
}

func (u *Unit) inlineBody(body *ast.BlockStmt, ft *ast.FuncType, sig *types.Signature, params []*types.Var, args []Val, st *State, label string) []Val {
	if u.inlineDepth > 6 {
		u.fail("inline depth exceeded at %s", label)
	}
	for i, p := range params {
		if p != nil && i < len(args) {
			st.env[p] = args[i]
		}
	}
	fr := &retFrame{sig: sig}
	if ft.Results != nil {
		for _, f := range ft.Results.List {
			for _, n := range f.Names {
				v, _ := u.info.Defs[n].(*types.Var)
				fr.results = append(fr.results, v)
				if v != nil {
					srt := u.reg.sortOf(v.Type())
					st.env[v] = Val{T: u.reg.zero(srt), S: srt, GT: v.Type()}
				}
			}
		}
	}
	u.frames = append(u.frames, fr)
	u.inlineDepth++
	u.inlineStack = append(u.inlineStack, label)
	if _, done := u.siteDone[body]; !done {
		u.siteDone[body] = true
		u.computeSiteOrdinals(body, "")
	}
	outs := u.execBlock(body.List, st)
	u.inlineStack = u.inlineStack[:len(u.inlineStack)-1]
	u.inlineDepth--
	u.frames = u.frames[:len(u.frames)-1]
	// merge return outcomes
	n := sig.Results().Len()
	res := make([]Val, n)
	for i := 0; i < n; i++ {
		t := sig.Results().At(i).Type()
		srt := u.reg.sortOf(t)
		res[i] = Val{T: u.reg.fresh("ret", srt), S: srt, GT: t}
	}
	var sts []*State
	for _, o := range outs {
		switch o.kind {
		case oReturn:
			for i := 0; i < n; i++ {
				o.st.assume(eq(res[i].T, o.vals[i].T))
			}
			sts = append(sts, o.st)
		case oNormal:
			if n > 0 {
				// falling off the end of a function with results is impossible in Go
				continue
			}
			sts = append(sts, o.st)
		default:
			u.fail("break/continue escaping an inlined body (%s)", label)
		}
	}
	if len(sts) == 0 {
		st.assume("false")
		return res
	}
	// single return: keep the value terms themselves (smaller formulas, keeps Dyn/Elems)
	if len(sts) == 1 {
		for _, o := range outs {
			if o.kind == oReturn {
				*st = *o.st
				return o.vals
			}
		}
	}
	m := u.mergeAll(sts)
	*st = *m
	return res
}

// evalCurried handles builder.ToAssignable(a)(f(...)) by inlining the returned closure.
func (u *Unit) evalCurried(inner, outer *ast.CallExpr, st *State) []Val {
	if !u.inSpec {
		st.markReached(inner)
		if c, ok := u.forbidSites[inner]; ok {
			f := strings.Fields(c.Text)
			u.oblige(st, "forbid#"+u.site(inner, "call#"+f[0]), "assert", "false", u.clauseProps(c), c, "no call of "+f[0]+" is executed here: "+strings.Join(f[1:], " "), inner)
		}
	}
	f := u.staticCallee(inner)
	fi := u.prog.funcOf(f)
	if fi == nil {
		u.fail("unsupported curried call at %s", u.pos(outer))
	}
	// the callee must be `return func(...) {...}`
	if len(fi.Decl.Body.List) != 1 {
		u.fail("curried callee %s is not a single return of a function literal", fi.Key)
	}
	ret, ok := fi.Decl.Body.List[0].(*ast.ReturnStmt)
	if !ok || len(ret.Results) != 1 {
		u.fail("curried callee %s is not a single return of a function literal", fi.Key)
	}
	lit, ok := ret.Results[0].(*ast.FuncLit)
	if !ok {
		u.fail("curried callee %s is not a single return of a function literal", fi.Key)
	}
	// bind the outer function's parameters
	sigOuter := f.Type().(*types.Signature)
	oargs := u.evalArgs(inner, sigOuter, st)
	restore := u.switchPkg(fi.Pkg)
	defer restore()
	idx := 0
	for _, fl := range fi.Decl.Type.Params.List {
		for _, n := range fl.Names {
			if v, ok := u.info.Defs[n].(*types.Var); ok && idx < len(oargs) {
				st.env[v] = oargs[idx]
			}
			idx++
		}
	}
	restore()
	litSig := f.Type().(*types.Signature).Results().At(0).Type().Underlying().(*types.Signature)
	args := u.evalArgs(outer, litSig, st)
	restore2 := u.switchPkg(fi.Pkg)
	defer restore2()
	var params []*types.Var
	for _, fl := range lit.Type.Params.List {
		for _, n := range fl.Names {
			v, _ := u.info.Defs[n].(*types.Var)
			params = append(params, v)
		}
	}
	return u.inlineBody(lit.Body, lit.Type, litSig, params, args, st, "curried:"+fi.Key)
}

func (u *Unit) switchPkg(p *packages.Package) func() {
	oi, op := u.info, u.pkg
	u.info, u.pkg = p.TypesInfo, p
	return func() { u.info, u.pkg = oi, op }
}

// inlineFunc inlines a module function marked `inline`.
func (u *Unit) inlineFunc(fi *FuncInfo, recv *Val, args []Val, st *State) []Val {
	for _, k := range u.inlineStack {
		if k == fi.Key {
			u.fail("recursive inlining of %s", fi.Key)
		}
	}
	restore := u.switchPkg(fi.Pkg)
	defer restore()
	sig := fi.Obj.Type().(*types.Signature)
	var params []*types.Var
	var vals []Val
	if fi.Decl.Recv != nil && len(fi.Decl.Recv.List) == 1 {
		if len(fi.Decl.Recv.List[0].Names) == 1 {
			v, _ := u.info.Defs[fi.Decl.Recv.List[0].Names[0]].(*types.Var)
			params = append(params, v)
		} else {
			params = append(params, nil)
		}
		if recv != nil {
			vals = append(vals, *recv)
		} else {
			vals = append(vals, Val{T: "0", S: "Int"})
		}
	}
	for _, fl := range fi.Decl.Type.Params.List {
		if len(fl.Names) == 0 {
			params = append(params, nil)
		}
		for _, n := range fl.Names {
			v, _ := u.info.Defs[n].(*types.Var)
			params = append(params, v)
		}
	}
	vals = append(vals, args...)
	return u.inlineBody(fi.Decl.Body, fi.Decl.Type, sig, params, vals, st, fi.Key)
}

// ---------------------------------------------------------------------------
// calls of named functions

func (u *Unit) callFunc(call *ast.CallExpr, f *types.Func, recv *Val, args []Val, st *State) []Val {
	sig := f.Type().(*types.Signature)
	inModule := f.Pkg() != nil && strings.HasPrefix(f.Pkg().Path(), modPath)
	if !inModule {
		return u.callExternal(call, f, recv, args, st)
	}
	// predicate / ghost function from the synthetic specification file
	if pr, ok := u.prog.PredByFn[f.Origin()]; ok {
		return []Val{u.evalPred(pr, f, args, st)}
	}
	// devirtualise interface calls on values with a known dynamic type
	if recv != nil && isInterface(sig.Recv().Type()) && recv.Dyn != nil {
		if m := lookupMethod(recv.Dyn, f.Name()); m != nil {
			f = m
			sig = f.Type().(*types.Signature)
		}
	}
	con := u.prog.contractOf(f)
	fi := u.prog.funcOf(f)
	if con != nil && con.Inline && fi != nil && !u.inSpec {
		return u.inlineFunc(fi, recv, args, st)
	}
	if con == nil && fi != nil && !u.inSpec && u.autoInlinable(fi) {
		// a small helper without a contract is executed in place (instead of havocking its results): extracting a
		// few statements into a helper function does not change what is proved about the caller
		savedNS := u.noSafety
		u.noSafety = true
		u.spliceDecls = append(u.spliceDecls, fi.Decl)
		res := u.inlineFunc(fi, recv, args, st)
		u.spliceDecls = u.spliceDecls[:len(u.spliceDecls)-1]
		u.noSafety = savedNS
		u.reg.note("call of " + fi.Key + " (no contract, small, not recursive) executed in place")
		return res
	}
	if con == nil && fi != nil && u.inSpec {
		// a specification that calls a function without (or with a stale) contract: uninterpreted
		u.reg.note("specification calls " + funcKeyOfObj(f) + " which has no contract: treated as an uninterpreted function of its arguments and the heap epoch")
		sig := f.Type().(*types.Signature)
		var res []Val
		for i := 0; i < sig.Results().Len(); i++ {
			t := sig.Results().At(i).Type()
			res = append(res, u.pureResult(f, i, u.reg.sortOf(t), t, recv, args, st))
		}
		return res
	}
	return u.callByContract(call, f, con, recv, args, st)
}

func lookupMethod(t types.Type, name string) *types.Func {
	ms := types.NewMethodSet(t)
	for i := 0; i < ms.Len(); i++ {
		if ms.At(i).Obj().Name() == name {
			return ms.At(i).Obj().(*types.Func)
		}
	}
	return nil
}

// roleBindings maps the roles of a specification function's parameters to values.
type roleVals struct {
	recv    *Val
	params  []Val
	results []Val
}

func (u *Unit) callByContract(call *ast.CallExpr, f *types.Func, con *Contract, recv *Val, args []Val, st *State) []Val {
	sig := f.Type().(*types.Signature)
	key := funcKeyOfObj(f)
	siteName := "call"
	if call != nil {
		siteName = u.site(call, "call#"+key)
	}
	rv := &roleVals{recv: recv, params: args}
	if con != nil {
		u.usedContracts[con.Key] = true
		if !u.inSpec {
			for k, c := range con.Requires {
				g := u.evalClause(c, st, st, nil, rv)
				u.oblige(st, fmt.Sprintf("%s#pre#%d", siteName, k+1), "call-pre", g, u.clauseProps(c), c, "precondition of "+key+": "+c.Text, call)
				st.assume(g)
			}
		}
	} else if !u.inSpec {
		u.havocCalls[key] = true
	}
	// recursion: where caller and callee both declare a measure, the callee's is smaller (termination)
	if con != nil && con.Variant != nil && u.con != nil && u.con.Variant != nil && !u.inSpec && call != nil && len(u.inlineStack) == 0 {
		mine := u.evalClauseVal(u.con.Variant, u.entry.clone(), u.entry, nil, u.entryBindings(nil))
		theirs := u.evalClauseVal(con.Variant, st, st, nil, rv)
		u.oblige(st, fmt.Sprintf("%s#variant", siteName), "variant", and("(>= "+theirs.T+" 0)", "(< "+theirs.T+" "+mine.T+")"), []string{"C13"}, con.Variant,
			"recursion is well-founded: the measure of "+key+" ("+con.Variant.Text+") is smaller than that of the caller", call)
	}
	pure := con != nil && con.Pure
	pre := st
	if !pure && !u.inSpec {
		pre = st.clone()
		ms := u.prog.modSetOf(f)
		u.frameAlloc = pre.alloc
		for _, k := range sortedKeys(ms) {
			if strings.HasPrefix(k, "!") {
				continue
			}
			u.havocHeapFramed(st, pre, k, con, rv)
		}
		u.frameAlloc = ""
		u.checkCalleeFrame(pre, f, con, rv, ms, call)
		// a callee that initialises immutable fields of an object passed to it (assigns p.*) may only be
		// handed an object under construction
		if con != nil && con.HasAssigns {
			u.checkImmutableArgs(st, pre, con, rv, ms, call)
		}
		al := u.reg.fresh("alloc", "Int")
		st.assume("(>= " + al + " " + st.alloc + ")")
		st.alloc = al
		u.bumpEpoch(st)
	}
	// results
	var res []Val
	n := sig.Results().Len()
	for i := 0; i < n; i++ {
		t := sig.Results().At(i).Type()
		if containsTypeParam(t) && call != nil {
			// instantiate from the call's type
			ct := typeOf(u.info, call)
			if tup, ok := ct.(*types.Tuple); ok {
				t = tup.At(i).Type()
			} else if n == 1 {
				t = ct
			}
		}
		srt := u.reg.sortOf(t)
		var v Val
		if pure {
			if dv, ok := u.pureDefinedResult(con, i, n, rv, st); ok && dv.S == srt && !con.Opaque {
				v = dv
				v.GT = t
			} else {
				v = u.pureResult(f, i, srt, t, recv, args, st)
			}
		} else {
			v = Val{T: u.reg.fresh("r_"+f.Name(), srt), S: srt, GT: t}
		}
		u.allocFact(st, v)
		u.sliceFacts(st, v)
		res = append(res, v)
	}
	if !u.inSpec && !pure {
		for _, v := range res {
			if v.GT == nil || v.S != "Int" {
				continue
			}
			if pt, ok := v.GT.Underlying().(*types.Pointer); ok {
				u.assumeTypeInv(st, v, pt.Elem())
			}
		}
	}
	rv.results = res
	if !u.inSpec {
		if con != nil && con.ErrIgnorable != nil && len(res) > 0 {
			// the contract says when the caller may drop the error (e.g. mapField's skip result)
			ign := u.evalClause(con.ErrIgnorable, st, pre, nil, rv)
			last := res[len(res)-1]
			if isErrorLike(sig.Results().At(len(res)-1).Type()) && last.S == "Int" {
				st.errs = append(st.errs, errRec{term: ite(ign, "0", last.T), from: key})
			}
		} else if call == nil || !u.errDropSites[call] {
			u.recordErrs(st, res, sig, key)
		}
	}
	if con != nil && !con.Opaque {
		for _, c := range con.Ensures {
			st.assume(u.evalClause(c, st, pre, nil, rv))
		}
	}
	// copy-out for value-result pointers (&x arguments and receivers)
	if !pure && !u.inSpec {
		all := append([]Val{}, args...)
		if recv != nil {
			all = append(all, *recv)
		}
		for _, a := range all {
			if a.Addr != nil {
				if pt, ok := a.GT.Underlying().(*types.Pointer); ok {
					dk := map[string]bool{}
					derefKeys(pt.Elem(), dk, u.reg)
					hit := false
					for k := range u.prog.modSetOf(f) {
						if dk[k] {
							hit = true
						}
					}
					if !hit {
						continue
					}
					nv := u.loadDeref(st, a, pt.Elem())
					saved := u.noSafety
					u.noSafety = true
					u.assignTo(a.Addr, nv, st)
					u.noSafety = saved
				}
			}
		}
	}
	return res
}

// pureResult: the result of a pure function is a function of its arguments and the heap it may read.
func (u *Unit) pureResult(f *types.Func, i int, srt string, t types.Type, recv *Val, args []Val, st *State) Val {
	name := fmt.Sprintf("pure_%s_%d", sanitize(funcKeyOfObj(f)), i)
	var as, ss []string
	if recv != nil {
		as = append(as, recv.T)
		ss = append(ss, recv.S)
	}
	for _, a := range args {
		as = append(as, a.T)
		ss = append(ss, a.S)
	}
	// the result depends on the heap locations the function may read (syntactic read set); when the
	// read set is unknown or large, on the heap epoch
	rs := u.prog.ReadSets[f.Origin()]
	if rs == nil || rs["!unknown"] || len(rs) > 16 {
		as = append(as, st.epoch)
		ss = append(ss, "Int")
	} else {
		for _, k := range sortedKeys(rs) {
			srtK := u.sortOfHeapKey(k)
			if srtK == "" {
				continue
			}
			as = append(as, u.heapTerm(st, k, srtK))
			ss = append(ss, srtK)
		}
	}
	u.reg.declare(name, ss, srt)
	return Val{T: app(name, as...), S: srt, GT: t}
}

// callFuncValue: call through a function value that is not statically known.
func (u *Unit) callFuncValue(call *ast.CallExpr, fv Val, name string, sig *types.Signature, args []Val, st *State) []Val {
	// uninterpreted, deterministic within one heap epoch
	var res []Val
	var as, ss []string
	as = append(as, fv.T, st.epoch)
	ss = append(ss, "Int", "Int")
	for _, a := range args {
		as = append(as, a.T)
		ss = append(ss, a.S)
	}
	for i := 0; i < sig.Results().Len(); i++ {
		t := sig.Results().At(i).Type()
		srt := u.reg.sortOf(t)
		fn := fmt.Sprintf("fv_%s_%d", sanitize(name), i)
		u.reg.declare(fn, ss, srt)
		v := Val{T: app(fn, as...), S: srt, GT: t}
		res = append(res, v)
	}
	u.unmodelledNote("call through function value " + name + " treated as an uninterpreted function without side effects")
	if !u.inSpec {
		u.recordErrs(st, res, sig, "func value "+name)
	}
	return res
}

func (u *Unit) unmodelledNote(s string) { u.reg.note(s) }

func isGhostVocabulary(f *types.Func) bool {
	if f.Pkg() == nil {
		return false
	}
	switch f.Name() {
	case "implies", "iff", "forall", "exists", "forall2", "forall3", "exists2", "old", "has", "keys", "dynIs", "unboxed", "seqEq", "setEq", "same", "typeOK", "unchangedExcept", "ite", "allocated", "isFresh", "sortedStrings", "permOf", "fst", "snd", "reached":
		pos := f.Pos()
		_ = pos
		return true
	}
	return false
}

// pureDefinedResult: a pure function whose contract has a clause `result == E` (or
// `resultN == E`) is that expression (used like a spec function).
func (u *Unit) pureDefinedResult(con *Contract, i, n int, rv *roleVals, st *State) (Val, bool) {
	for _, c := range con.Ensures {
		sf := u.prog.SpecFns[c.SpecFunc]
		if sf == nil || sf.Decl == nil {
			continue
		}
		ret, ok := sf.Decl.Body.List[0].(*ast.ReturnStmt)
		if !ok {
			continue
		}
		be, ok := ast.Unparen(ret.Results[0]).(*ast.BinaryExpr)
		if !ok || be.Op != token.EQL {
			continue
		}
		id, ok := be.X.(*ast.Ident)
		if !ok {
			continue
		}
		want := fmt.Sprintf("result%d", i)
		if !(id.Name == want || (i == 0 && id.Name == "result")) {
			continue
		}
		// evaluate E with the roles bound (results unbound)
		specPkg := u.prog.Pkgs[sf.Pkg]
		bind := map[*types.Var]Val{}
		var pvars []*types.Var
		for _, fl := range sf.Decl.Type.Params.List {
			for _, nm := range fl.Names {
				v, _ := specPkg.TypesInfo.Defs[nm].(*types.Var)
				pvars = append(pvars, v)
			}
		}
		for k, role := range sf.Roles {
			kind := role[:strings.Index(role, ":")]
			switch {
			case kind == "recv" && rv.recv != nil:
				bind[pvars[k]] = *rv.recv
			case strings.HasPrefix(kind, "param"):
				var idx int
				fmt.Sscanf(kind, "param%d", &idx)
				if idx < len(rv.params) {
					bind[pvars[k]] = rv.params[idx]
				}
			}
		}
		v := u.evalSpecExpr(be.Y, specPkg.TypesInfo, bind, bind, st, st)
		return v, true
	}
	return Val{}, false
}

// assertOrdinal: position of an in-body assertion among the assertions attached to the same site
func (u *Unit) assertOrdinal(c *Clause) int {
	n := 0
	for _, o := range u.con.Asserts {
		if o.At == c.At {
			n++
			if o == c {
				return n
			}
		}
	}
	return n
}

// recordErrs remembers the error-typed results of a call (see `propagates`)
func (u *Unit) recordErrs(st *State, res []Val, sig *types.Signature, from string) {
	n := sig.Results().Len()
	if n == 0 || len(res) != n {
		return
	}
	last := sig.Results().At(n - 1).Type()
	if isErrorLike(last) && res[n-1].S == "Int" {
		st.errs = append(st.errs, errRec{term: res[n-1].T, from: from})
	}
}

func (u *Unit) checkImmutableArgs(st, pre *State, con *Contract, rv *roleVals, ms map[string]bool, call *ast.CallExpr) {
	for _, item := range con.Assigns {
		if item == "fresh" || strings.HasPrefix(item, "map(") {
			continue
		}
		obj, fields, _ := u.parseAssignItem(con, item, rv, pre)
		touches := false
		for k := range u.prog.CS.Immutable {
			if ms[k] && (fields == nil || fields[k]) {
				touches = true
			}
		}
		if !touches || u.entry == nil {
			continue
		}
		alts := []string{"(> " + obj + " " + u.entry.alloc + ")"}
		if u.con != nil && u.con.HasAssigns && len(u.inlineStack) == 0 {
			for k := range u.prog.CS.Immutable {
				if ms[k] && (fields == nil || fields[k]) {
					alts = append(alts, u.frameAllows(st, u.con, u.entryBindings(nil), u.entry, k, obj))
					break
				}
			}
		}
		u.oblige(pre, fmt.Sprintf("immutable-arg#%d", u.frameSite(call, "immarg:"+item)), "frame", or(alts...), []string{"C03"}, nil, "object whose immutable fields the callee initialises ("+item+") is under construction", call)
	}
}

// checkCalleeFrame: when the function under verification declares a frame, everything a callee may
// write (its own frame when it declares one, otherwise its whole syntactic write set) must lie inside it.
func (u *Unit) checkCalleeFrame(pre *State, f *types.Func, con *Contract, rv *roleVals, ms map[string]bool, call *ast.CallExpr) {
	if u.suppressAssigns || u.con == nil || !u.con.HasAssigns || len(u.inlineStack) > len(u.spliceDecls) || u.entry == nil || call == nil {
		return
	}
	var conj []string
	for _, k := range sortedKeys(ms) {
		if strings.HasPrefix(k, "!") || strings.HasPrefix(k, "C:") {
			continue
		}
		srtK := u.sortOfHeapKey(k)
		if srtK == "" {
			continue
		}
		if strings.HasPrefix(k, "G:") {
			conj = append(conj, "false")
			continue
		}
		u.reg.counter++
		r := fmt.Sprintf("q_r!%d", u.reg.counter)
		calleeAllowed := "true"
		if con != nil && con.HasAssigns {
			calleeAllowed = u.frameAllows(pre, con, rv, pre, k, r)
		} else if u.prog.CS.Immutable[k] {
			// immutable fields are only written on objects under construction; a callee without a frame
			// cannot be handed one, so it writes them on its own fresh objects only
			calleeAllowed = "(> " + r + " " + pre.alloc + ")"
		}
		callerAllowed := u.frameAllows(pre, u.con, u.entryBindings(nil), u.entry, k, r)
		conj = append(conj, fmt.Sprintf("(forall ((%s Int)) (=> (and (> %s 0) %s) %s))", r, r, calleeAllowed, callerAllowed))
	}
	if len(conj) == 0 {
		return
	}
	u.oblige(pre, fmt.Sprintf("%s#frame", u.site(call, "call#"+funcKeyOfObj(f))), "frame", and(conj...), u.con.Props, nil, "everything "+funcKeyOfObj(f)+" may write lies inside the assigns clause", call)
}

// autoInlinable: a module function without contract that is small, not generic, not (mutually) recursive
// on the current inline stack, and free of constructs outside the subset
func (u *Unit) autoInlinable(fi *FuncInfo) bool {
	if u.inlineDepth >= 2 || u.inCommute {
		return false
	}
	if u.fi != nil && fi.Key == u.fi.Key {
		return false
	}
	for _, k := range u.inlineStack {
		if k == fi.Key {
			return false
		}
	}
	return u.prog.staticInlinable(fi)
}

// staticInlinable: the part of autoInlinable that depends on the callee only
func (p *Program) staticInlinable(fi *FuncInfo) bool {
	if fi.Decl == nil || fi.Decl.Body == nil || fi.Decl.Type.TypeParams != nil {
		return false
	}
	if fi.Obj != nil && hasTypeParams(fi.Obj) {
		return false
	}
	p.inlMu.Lock()
	defer p.inlMu.Unlock()
	if v, ok := p.inlinable[fi.Key]; ok {
		return v
	}
	n := 0
	ok := true
	ast.Inspect(fi.Decl.Body, func(x ast.Node) bool {
		switch x := x.(type) {
		case ast.Stmt:
			n++
			switch x.(type) {
			case *ast.DeferStmt, *ast.GoStmt, *ast.SelectStmt, *ast.SendStmt, *ast.LabeledStmt:
				ok = false
			case *ast.BranchStmt:
				if x.(*ast.BranchStmt).Label != nil {
					ok = false
				}
			}
		case *ast.CallExpr:
			// self recursion
			if c := calleeOf(fi.Pkg.TypesInfo, x); c != nil && fi.Obj != nil && c.Origin() == fi.Obj.Origin() {
				ok = false
			}
		}
		return true
	})
	res := ok && n <= 30
	if p.inlinable == nil {
		p.inlinable = map[string]bool{}
	}
	p.inlinable[fi.Key] = res
	return res
}
