package main

// Syntactic sweeps over the typed AST (whitelists, effect frames, call-site
// shapes). Each sweep is one obligation discharged by the engine itself.

import (
	"go/ast"
	"go/types"
	"sort"
)

type Sweep struct {
	Name      string
	Status    string
	Sites     int
	Detail    string
	Offenders []string
}

type sweepFn func(prog *Program) Sweep

var sweepTable = map[string][]sweepFn{}

func sweepsFor(id string) []sweepFn { return sweepTable[id] }

func runSweeps(prog *Program, id string) []Sweep {
	var out []Sweep
	for _, f := range sweepTable[id] {
		out = append(out, f(prog))
	}
	return out
}

func (p *Program) implementsMethod(fi *FuncInfo, m *types.Func) bool {
	sig := fi.Obj.Type().(*types.Signature)
	if sig.Recv() == nil {
		return false
	}
	msig := m.Type().(*types.Signature)
	it, ok := msig.Recv().Type().Underlying().(*types.Interface)
	if !ok {
		return false
	}
	rt := sig.Recv().Type()
	if types.Implements(rt, it) {
		return true
	}
	if _, isPtr := rt.(*types.Pointer); !isPtr {
		return types.Implements(types.NewPointer(rt), it)
	}
	return false
}

// mapRangeFuncs: keys of all non-test functions that contain a range over a map
func (p *Program) mapRangeFuncs() []string {
	var out []string
	for k, fi := range p.Funcs {
		found := false
		ast.Inspect(fi.Decl.Body, func(n ast.Node) bool {
			if rs, ok := n.(*ast.RangeStmt); ok {
				if _, ok := typeOf(fi.Pkg.TypesInfo, rs.X).Underlying().(*types.Map); ok {
					found = true
				}
			}
			return true
		})
		if found {
			out = append(out, k)
		}
	}
	sort.Strings(out)
	return out
}
