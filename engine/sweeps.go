package main

// Syntactic sweeps over the typed AST (whitelists, effect frames, call-site
// shapes). Each sweep is one obligation discharged by the engine itself.

import (
	"fmt"
	"go/ast"
	"go/types"
	"sort"
	"strings"
)

type Sweep struct {
	Name      string
	Status    string
	Sites     int
	Detail    string
	Offenders []string
}

type sweepFn func(prog *Program) Sweep

var sweepTable = map[string][]sweepFn{}

func sweepsFor(id string) []sweepFn { return sweepTable[id] }

func runSweeps(prog *Program, id string) []Sweep {
	var out []Sweep
	for _, f := range sweepTable[id] {
		out = append(out, f(prog))
	}
	return out
}

func (p *Program) implementsMethod(fi *FuncInfo, m *types.Func) bool {
	sig := fi.Obj.Type().(*types.Signature)
	if sig.Recv() == nil {
		return false
	}
	msig := m.Type().(*types.Signature)
	it, ok := msig.Recv().Type().Underlying().(*types.Interface)
	if !ok {
		return false
	}
	rt := sig.Recv().Type()
	if types.Implements(rt, it) {
		return true
	}
	if _, isPtr := rt.(*types.Pointer); !isPtr {
		return types.Implements(types.NewPointer(rt), it)
	}
	return false
}

// mapRangeFuncs: keys of all non-test functions that contain a range over a map
func (p *Program) mapRangeFuncs() []string {
	var out []string
	for k, fi := range p.Funcs {
		found := false
		ast.Inspect(fi.Decl.Body, func(n ast.Node) bool {
			if rs, ok := n.(*ast.RangeStmt); ok {
				if _, ok := typeOf(fi.Pkg.TypesInfo, rs.X).Underlying().(*types.Map); ok {
					found = true
				}
			}
			return true
		})
		if found {
			out = append(out, k)
		}
	}
	sort.Strings(out)
	return out
}

// ---------------------------------------------------------------------------
// C17 / C15: file-system writers

var fsWriters = map[string]bool{
	"os.WriteFile": true, "os.MkdirAll": true, "os.Mkdir": true, "os.Create": true, "os.OpenFile": true,
	"os.Remove": true, "os.RemoveAll": true, "os.Rename": true, "os.Truncate": true, "os.Chmod": true,
	"os.Symlink": true, "os.Link": true, "os.CreateTemp": true, "os.MkdirTemp": true, "os.Chdir": true,
	"io/ioutil.WriteFile": true, "io/ioutil.TempFile": true, "io/ioutil.TempDir": true,
	"os.File.Write": true, "os.File.WriteString": true, "os.File.Truncate": true, "os.File.WriteAt": true,
	"os/exec.Command": true, "os/exec.CommandContext": true,
}

// extCalls enumerates calls of functions outside the module: (function key of caller, ext key, position)
func (p *Program) extCalls(visit func(fi *FuncInfo, callee *types.Func, call *ast.CallExpr)) {
	var keys []string
	for k := range p.Funcs {
		keys = append(keys, k)
	}
	sort.Strings(keys)
	for _, k := range keys {
		fi := p.Funcs[k]
		if fi.Decl == nil || fi.Decl.Body == nil {
			continue
		}
		owner := p.sweepOwner(fi)
		ast.Inspect(fi.Decl.Body, func(n ast.Node) bool {
			if ce, ok := n.(*ast.CallExpr); ok {
				if c := calleeOf(fi.Pkg.TypesInfo, ce); c != nil {
					visit(owner, c, ce)
				}
			}
			return true
		})
	}
}

// sweepOwner: the sweeps allow certain calls only inside named functions (whose contracts are verified). A small
// contract-less helper that is executed in place when its ONLY caller is verified (see Expansion) is part of that
// caller's text: extracting statements into such a helper must not be reported. The helper must be called from exactly
// one function of the module, must not be used as a value, and must be spliced into that caller's expansion.
func (p *Program) sweepOwner(fi *FuncInfo) *FuncInfo {
	p.ownerOnce.Do(func() {
		p.callersOf = map[*types.Func]map[*FuncInfo]bool{}
		p.usedAsValue = map[*types.Func]bool{}
		for _, g := range p.Funcs {
			if g.Decl == nil || g.Decl.Body == nil {
				continue
			}
			calleeIdents := map[*ast.Ident]bool{}
			ast.Inspect(g.Decl.Body, func(n ast.Node) bool {
				if ce, ok := n.(*ast.CallExpr); ok {
					if c := calleeOf(g.Pkg.TypesInfo, ce); c != nil {
						c = c.Origin()
						if p.callersOf[c] == nil {
							p.callersOf[c] = map[*FuncInfo]bool{}
						}
						p.callersOf[c][g] = true
						switch f := ast.Unparen(ce.Fun).(type) {
						case *ast.Ident:
							calleeIdents[f] = true
						case *ast.SelectorExpr:
							calleeIdents[f.Sel] = true
						}
					}
				}
				return true
			})
			ast.Inspect(g.Decl.Body, func(n ast.Node) bool {
				if id, ok := n.(*ast.Ident); ok && !calleeIdents[id] {
					if f, ok := g.Pkg.TypesInfo.Uses[id].(*types.Func); ok {
						p.usedAsValue[f.Origin()] = true
					}
				}
				return true
			})
		}
	})
	cur := fi
	for depth := 0; depth < 2; depth++ {
		if cur.Obj == nil || (p.CS != nil && p.CS.Funcs[cur.Key] != nil) || p.usedAsValue[cur.Obj.Origin()] || cur.Obj.Exported() {
			return cur
		}
		callers := p.callersOf[cur.Obj.Origin()]
		if len(callers) != 1 {
			return cur
		}
		var g *FuncInfo
		for c := range callers {
			g = c
		}
		if g == cur {
			return cur
		}
		spliced := false
		for _, h := range p.expansion(g).helpers {
			if h == cur {
				spliced = true
			}
		}
		if !spliced {
			return cur
		}
		cur = g
	}
	return cur
}

func sweepFSWriters(prog *Program) Sweep {
	s := Sweep{Name: "sweep.C17.fs-writers-only-in-writeFiles", Detail: "every call of a file-system writer (os.WriteFile, os.MkdirAll, os.Create, ... " + fmt.Sprint(len(fsWriters)) + " functions) in non-test code of the module is inside goverter.writeFiles"}
	prog.extCalls(func(fi *FuncInfo, c *types.Func, ce *ast.CallExpr) {
		if c.Pkg() == nil || strings.HasPrefix(c.Pkg().Path(), modPath) {
			return
		}
		s.Sites++
		if fsWriters[extKey(c)] && fi.Key != "goverter.writeFiles" {
			s.Offenders = append(s.Offenders, fmt.Sprintf("%s calls %s at %s", fi.Key, extKey(c), prog.Fset.Position(ce.Pos())))
		}
	})
	s.Status = "discharged"
	if len(s.Offenders) > 0 {
		s.Status = "failed"
	}
	return s
}

func sweepWriteFilesCallers(prog *Program) Sweep {
	s := Sweep{Name: "sweep.C17.writeFiles-called-only-from-GenerateConverters", Detail: "goverter.writeFiles has exactly one caller in the module: goverter.GenerateConverters (whose contract asserts err == nil at that call)"}
	for _, fi := range prog.Funcs {
		k := prog.sweepOwner(fi).Key
		ast.Inspect(fi.Decl.Body, func(n ast.Node) bool {
			switch e := n.(type) {
			case *ast.CallExpr:
				if c := calleeOf(fi.Pkg.TypesInfo, e); c != nil && funcKeyOfObj(c) == "goverter.writeFiles" {
					s.Sites++
					if k != "goverter.GenerateConverters" {
						s.Offenders = append(s.Offenders, k+" calls writeFiles")
					}
				}
			case *ast.Ident:
				// writeFiles used as a value
				if f, ok := fi.Pkg.TypesInfo.Uses[e].(*types.Func); ok && funcKeyOfObj(f) == "goverter.writeFiles" {
					if !isCallee(fi.Decl.Body, e) {
						s.Offenders = append(s.Offenders, k+" takes the address of writeFiles")
					}
				}
			}
			return true
		})
	}
	s.Status = "discharged"
	if len(s.Offenders) > 0 || s.Sites != 1 {
		s.Status = "failed"
		if s.Sites != 1 {
			s.Offenders = append(s.Offenders, fmt.Sprintf("expected exactly 1 call site, found %d", s.Sites))
		}
	}
	return s
}

func isCallee(body ast.Node, id *ast.Ident) bool {
	found := false
	ast.Inspect(body, func(n ast.Node) bool {
		if ce, ok := n.(*ast.CallExpr); ok && ast.Unparen(ce.Fun) == ast.Expr(id) {
			found = true
		}
		return true
	})
	return found
}

// exit codes in cli.Run: os.Exit is called with the constants 1, 0, 1 (parse error, help, generation error)
func sweepExitCodes(prog *Program) Sweep {
	s := Sweep{Name: "sweep.C17.exit-codes", Detail: "os.Exit is called only in cli.Run, with constant arguments [1 0 1] in source order (usage error, help, generation error)"}
	var codes []string
	prog.extCalls(func(fi *FuncInfo, c *types.Func, ce *ast.CallExpr) {
		if extKey(c) != "os.Exit" {
			return
		}
		s.Sites++
		if fi.Key != "cli.Run" {
			s.Offenders = append(s.Offenders, fi.Key+" calls os.Exit")
			return
		}
		tv := fi.Pkg.TypesInfo.Types[ce.Args[0]]
		if tv.Value == nil {
			s.Offenders = append(s.Offenders, "non-constant exit code in cli.Run")
			return
		}
		codes = append(codes, tv.Value.ExactString())
	})
	if strings.Join(codes, " ") != "1 0 1" {
		s.Offenders = append(s.Offenders, "exit codes in cli.Run are ["+strings.Join(codes, " ")+"], expected [1 0 1]")
	}
	s.Status = "discharged"
	if len(s.Offenders) > 0 {
		s.Status = "failed"
	}
	return s
}

func init() {
	sweepTable["C17"] = []sweepFn{sweepFSWriters, sweepWriteFilesCallers, sweepExitCodes}
}

// ---------------------------------------------------------------------------
// C18: imports are derived from jen.Qual; no reflect/unsafe; only type/func/init declarations

// the first argument of every jen.Qual call is one of the allowed package expressions
func sweepQualWhitelist(prog *Program) Sweep {
	s := Sweep{Name: "sweep.C18.qual-package-whitelist", Detail: `the package argument of every jen.Qual call in the module is obj.Pkg().Path() of a user object, a definition's Package, the configured wrapErrorsUsing package (pkg parameter of WrapErrorsUsing) or the literal "fmt"; no string constant "reflect" or "unsafe" occurs in non-test code`}
	prog.extCalls(func(fi *FuncInfo, c *types.Func, ce *ast.CallExpr) {
		if extKey(c) != "jen.Qual" {
			return
		}
		s.Sites++
		arg := ast.Unparen(ce.Args[0])
		txt := types.ExprString(arg)
		info := fi.Pkg.TypesInfo
		ok := false
		if tv, isConst := info.Types[arg]; isConst && tv.Value != nil {
			ok = constantString(tv.Value) == "fmt"
		} else {
			switch {
			case strings.HasSuffix(txt, ".Pkg().Path()"):
				ok = true
			case isDefinitionPackage(info, arg):
				// the Package field of a method.Definition (whatever the variable is called)
				ok = true
			case fi.Key == "builder.ErrorPath.WrapErrorsUsing" && isParamIdent(info, fi, arg, 0):
				// the package parameter of WrapErrorsUsing (the configured wrapErrorsUsing package)
				ok = true
			}
		}
		if !ok {
			s.Offenders = append(s.Offenders, fmt.Sprintf("%s: jen.Qual(%s, ...) at %s", fi.Key, txt, prog.Fset.Position(ce.Pos())))
		}
	})
	// no "reflect"/"unsafe" string constants anywhere in non-test code
	for _, fi := range prog.Funcs {
		ast.Inspect(fi.Decl.Body, func(n ast.Node) bool {
			if bl, ok := n.(*ast.BasicLit); ok {
				if tv, ok := fi.Pkg.TypesInfo.Types[bl]; ok && tv.Value != nil {
					v := constantString(tv.Value)
					if v == "reflect" || v == "unsafe" {
						s.Offenders = append(s.Offenders, fmt.Sprintf("%s mentions %q at %s", fi.Key, v, prog.Fset.Position(bl.Pos())))
					}
				}
			}
			return true
		})
	}
	s.Status = "discharged"
	if len(s.Offenders) > 0 {
		s.Status = "failed"
	}
	return s
}

// "fmt" is only referenced from the error-wrapping and enum @error/@panic code
func sweepFmtUse(prog *Program) Sweep {
	s := Sweep{Name: "sweep.C18.fmt-only-for-wrapErrors-and-enum-actions", Detail: `jen.Qual("fmt", ...) occurs only in builder.ErrorPath.WrapErrors (wrapErrors) and builder.caseAction (@error/@panic)`}
	prog.extCalls(func(fi *FuncInfo, c *types.Func, ce *ast.CallExpr) {
		if extKey(c) != "jen.Qual" {
			return
		}
		if tv, ok := fi.Pkg.TypesInfo.Types[ce.Args[0]]; ok && tv.Value != nil && constantString(tv.Value) == "fmt" {
			s.Sites++
			if fi.Key != "builder.ErrorPath.WrapErrors" && fi.Key != "builder.caseAction" {
				s.Offenders = append(s.Offenders, fi.Key)
			}
		}
	})
	s.Status = "discharged"
	if len(s.Offenders) > 0 {
		s.Status = "failed"
	}
	return s
}

// the only calls that add top-level declarations to a jen.File are in appendGenerated and fileManager.Get,
// and none of them adds a var/const declaration
func sweepFileDecls(prog *Program) Sweep {
	s := Sweep{Name: "sweep.C18.only-type-func-init-declarations", Detail: "methods of *jen.File are called only in generator.appendGenerated (Id/Comment/Type/Func/Add), generator.fileManager.Get (HeaderComment) and generator.fileManager.renderFiles (Render); jen.Var/jen.Const at file level are never used there"}
	allowed := map[string]map[string]bool{
		"generator.generator.appendGenerated":  {"Id": true, "Comment": true, "Type": true, "Func": true, "Add": true},
		"generator.fileManager.Get":            {"HeaderComment": true},
		"generator.fileManager.renderFiles":    {"Render": true},
	}
	prog.extCalls(func(fi *FuncInfo, c *types.Func, ce *ast.CallExpr) {
		key := extKey(c)
		if !strings.HasPrefix(key, "jen.File.") {
			return
		}
		s.Sites++
		m := strings.TrimPrefix(key, "jen.File.")
		if !allowed[fi.Key][m] {
			s.Offenders = append(s.Offenders, fmt.Sprintf("%s calls (*jen.File).%s", fi.Key, m))
		}
	})
	s.Status = "discharged"
	if len(s.Offenders) > 0 {
		s.Status = "failed"
	}
	return s
}

func init() {
	sweepTable["C18"] = []sweepFn{sweepQualWhitelist, sweepFmtUse, sweepFileDecls}
	sweepTable["C15"] = []sweepFn{sweepFSWriters, sweepWriteFilesCallers}
	sweepTable["C16"] = append(sweepTable["C16"], sweepFSWriters)
}

// ---------------------------------------------------------------------------
// object invariants: an object of a type with a `typeinv` is only allocated in a function whose
// contract establishes the invariant for it (the invariant is assumed wherever such an object is read)

func sweepTypeInvConstructors(prog *Program) Sweep {
	s := Sweep{Name: "sweep.C03.typeinv-constructors", Detail: "every allocation (&T{...}, T{...}, new(T), var of type T) of a type that carries an object invariant is inside a function whose contract has a postcondition establishing that invariant for its result (xtype.TypeOf for xtype.Type)"}
	for _, ti := range prog.CS.TypeInvs {
		key := ti.Pkg + "." + ti.Type
		for fk, fi := range prog.Funcs {
			establishes := false
			if oc := prog.sweepOwner(fi).Con; oc != nil {
				for _, c := range oc.Ensures {
					if strings.Contains(c.Text, "TypeFieldsOK(result)") || strings.Contains(c.Text, "typeOK(result)") {
						establishes = true
					}
				}
			}
			ast.Inspect(fi.Decl, func(n ast.Node) bool {
				var t types.Type
				switch n := n.(type) {
				case *ast.CompositeLit:
					t = fi.Pkg.TypesInfo.TypeOf(n)
				case *ast.CallExpr:
					if id, ok := n.Fun.(*ast.Ident); ok && id.Name == "new" && len(n.Args) == 1 {
						if _, isB := fi.Pkg.TypesInfo.Uses[id].(*types.Builtin); isB {
							t = fi.Pkg.TypesInfo.TypeOf(n.Args[0])
						}
					}
				case *ast.ValueSpec:
					if n.Type != nil {
						t = fi.Pkg.TypesInfo.TypeOf(n.Type)
					}
				}
				if t == nil {
					return true
				}
				if typeKey(t) == key {
					s.Sites++
					if !establishes {
						s.Offenders = append(s.Offenders, fmt.Sprintf("%s allocates %s at %s without establishing its invariant", fk, key, prog.Fset.Position(n.Pos())))
					}
				}
				return true
			})
		}
	}
	sort.Strings(s.Offenders)
	s.Status = "discharged"
	if len(s.Offenders) > 0 {
		s.Status = "failed"
	}
	if s.Sites == 0 {
		s.Status = "failed"
		s.Offenders = append(s.Offenders, "no allocation site found (vacuous)")
	}
	return s
}

func init() {
	sweepTable["C03"] = append(sweepTable["C03"], sweepTypeInvConstructors)
	sweepTable["C13"] = append(sweepTable["C13"], sweepTypeInvConstructors)
}

// errorReturningFuncs: keys of the non-test functions of the module whose last result is an error
// (error or *builder.Error) and that are not trusted/inline/pure helpers
func (p *Program) errorReturningFuncs() []string {
	var out []string
	for k, fi := range p.Funcs {
		if fi.Obj == nil || fi.Decl.Body == nil {
			continue
		}
		sig := fi.Obj.Type().(*types.Signature)
		n := sig.Results().Len()
		if n == 0 || !isErrorLike(sig.Results().At(n-1).Type()) {
			continue
		}
		if fi.Con != nil && (fi.Con.Trusted || fi.Con.Inline) {
			continue
		}
		out = append(out, k)
	}
	sort.Strings(out)
	return out
}

// ---------------------------------------------------------------------------
// C09: values collected in map-iteration order (declared `maprange N unordered-result v`) are sorted
// before anything else looks at them: either the collecting function sorts v itself right after the loop
// (more precisely: before v is used by anything but len/cap/append onto itself), or -- when it hands v out
// unsorted -- every caller passes the result straight to sort.Slice / sort.Strings.

func sweepUnorderedConsumers(prog *Program) Sweep {
	s := Sweep{Name: "sweep.C09.unordered-consumers", Detail: "every accumulator declared unordered-result is sorted (sort.Strings / sort.Slice / sort.SliceStable on it) before any other use; a function that returns one unsorted has only callers that sort the result in the next statement"}
	unsortedProducers := map[*types.Func]string{}
	isSortCallOn := func(info *types.Info, st ast.Stmt, obj types.Object) bool {
		es, ok := st.(*ast.ExprStmt)
		if !ok {
			return false
		}
		ce, ok := es.X.(*ast.CallExpr)
		if !ok || len(ce.Args) == 0 {
			return false
		}
		c := calleeOf(info, ce)
		if c == nil || c.Pkg() == nil || c.Pkg().Path() != "sort" {
			return false
		}
		id, ok := ast.Unparen(ce.Args[0]).(*ast.Ident)
		return ok && info.Uses[id] == obj
	}
	var keys []string
	for k := range prog.Funcs {
		keys = append(keys, k)
	}
	sort.Strings(keys)
	for _, k := range keys {
		fi := prog.Funcs[k]
		if fi.Con == nil || fi.Decl.Body == nil {
			continue
		}
		for _, mode := range fi.Con.MapRange {
			f := strings.Fields(mode)
			if len(f) < 2 || f[0] != "unordered-result" {
				continue
			}
			for _, name := range f[1:] {
				s.Sites++
				// the variable
				var obj types.Object
				ast.Inspect(fi.Decl.Body, func(n ast.Node) bool {
					if id, ok := n.(*ast.Ident); ok && id.Name == name && obj == nil {
						if o := fi.Pkg.TypesInfo.Defs[id]; o != nil {
							obj = o
						}
					}
					return true
				})
				if obj == nil {
					s.Offenders = append(s.Offenders, k+": unordered-result variable "+name+" not found")
					continue
				}
				// top-level statements of the function body: find the first sort call on v; before it v may only be
				// defined, appended to, ranged into by the collecting loop
				sortedAt := -1
				for i, st := range fi.Decl.Body.List {
					if isSortCallOn(fi.Pkg.TypesInfo, st, obj) {
						sortedAt = i
						break
					}
				}
				usedBeforeSort := func(limit int) string {
					bad := ""
					for i, st := range fi.Decl.Body.List {
						if limit >= 0 && i >= limit {
							break
						}
						ast.Inspect(st, func(n ast.Node) bool {
							switch n := n.(type) {
							case *ast.AssignStmt:
								// v = append(v, ...) / v := ...
								if len(n.Lhs) == 1 {
									if id, ok := n.Lhs[0].(*ast.Ident); ok && (fi.Pkg.TypesInfo.Uses[id] == obj || fi.Pkg.TypesInfo.Defs[id] == obj) {
										if ce, ok := n.Rhs[0].(*ast.CallExpr); ok {
											if fid, ok := ce.Fun.(*ast.Ident); ok && (fid.Name == "append" || fid.Name == "make") {
												// the arguments after the first may be anything but v itself
												for _, a := range ce.Args[1:] {
													ast.Inspect(a, func(m ast.Node) bool {
														if id2, ok := m.(*ast.Ident); ok && fi.Pkg.TypesInfo.Uses[id2] == obj {
															bad = "used inside an append argument"
														}
														return true
													})
												}
												return false
											}
										}
										if _, isLit := n.Rhs[0].(*ast.CompositeLit); isLit {
											return false
										}
									}
								}
							case *ast.ReturnStmt:
								for _, r := range n.Results {
									ast.Inspect(r, func(m ast.Node) bool {
										if id2, ok := m.(*ast.Ident); ok && fi.Pkg.TypesInfo.Uses[id2] == obj {
											bad = "returned"
										}
										return true
									})
								}
								return false
							case *ast.Ident:
								if fi.Pkg.TypesInfo.Uses[n] == obj {
									bad = "read at " + prog.Fset.Position(n.Pos()).String()
								}
							}
							return true
						})
					}
					return bad
				}
				if sortedAt >= 0 {
					if bad := usedBeforeSort(sortedAt); bad != "" && bad != "returned" {
						s.Offenders = append(s.Offenders, fmt.Sprintf("%s: %s is %s before it is sorted", k, name, bad))
					}
					continue
				}
				// never sorted here: it must only be handed out, and every caller sorts
				if bad := usedBeforeSort(-1); bad != "" && bad != "returned" {
					s.Offenders = append(s.Offenders, fmt.Sprintf("%s: %s is never sorted and %s", k, name, bad))
					continue
				}
				unsortedProducers[fi.Obj.Origin()] = k
			}
		}
	}
	// callers of unsorted producers
	for _, k := range keys {
		fi := prog.Funcs[k]
		if fi.Decl.Body == nil {
			continue
		}
		var checkBlock func(list []ast.Stmt)
		handled := map[*ast.CallExpr]bool{}
		checkBlock = func(list []ast.Stmt) {
			for i, st := range list {
				as, ok := st.(*ast.AssignStmt)
				if !ok || len(as.Rhs) != 1 || len(as.Lhs) != 1 {
					continue
				}
				ce, ok := as.Rhs[0].(*ast.CallExpr)
				if !ok {
					continue
				}
				c := calleeOf(fi.Pkg.TypesInfo, ce)
				if c == nil || unsortedProducers[c.Origin()] == "" {
					continue
				}
				id, ok := as.Lhs[0].(*ast.Ident)
				if !ok {
					continue
				}
				obj := fi.Pkg.TypesInfo.Defs[id]
				if obj == nil {
					obj = fi.Pkg.TypesInfo.Uses[id]
				}
				if i+1 < len(list) && isSortCallOn(fi.Pkg.TypesInfo, list[i+1], obj) {
					handled[ce] = true
				}
			}
		}
		ast.Inspect(fi.Decl.Body, func(n ast.Node) bool {
			if b, ok := n.(*ast.BlockStmt); ok {
				checkBlock(b.List)
			}
			return true
		})
		ast.Inspect(fi.Decl.Body, func(n ast.Node) bool {
			ce, ok := n.(*ast.CallExpr)
			if !ok {
				return true
			}
			c := calleeOf(fi.Pkg.TypesInfo, ce)
			if c == nil || unsortedProducers[c.Origin()] == "" {
				return true
			}
			s.Sites++
			if !handled[ce] {
				s.Offenders = append(s.Offenders, fmt.Sprintf("%s uses the unsorted result of %s at %s without sorting it first", k, unsortedProducers[c.Origin()], prog.Fset.Position(ce.Pos())))
			}
			return true
		})
	}
	sort.Strings(s.Offenders)
	s.Status = "discharged"
	if len(s.Offenders) > 0 || s.Sites == 0 {
		s.Status = "failed"
	}
	return s
}

func init() {
	sweepTable["C09"] = append(sweepTable["C09"], sweepUnorderedConsumers)
}

// isDefinitionPackage: e is a selector `x.Package` whose field is method.Definition.Package
func isDefinitionPackage(info *types.Info, e ast.Expr) bool {
	sel, ok := e.(*ast.SelectorExpr)
	if !ok || sel.Sel.Name != "Package" {
		return false
	}
	v, ok := info.Uses[sel.Sel].(*types.Var)
	if !ok || !v.IsField() || v.Pkg() == nil {
		return false
	}
	return v.Pkg().Path() == modPath+"/method"
}

// isParamIdent: e is the identifier of the idx-th parameter of fi
func isParamIdent(info *types.Info, fi *FuncInfo, e ast.Expr, idx int) bool {
	id, ok := e.(*ast.Ident)
	if !ok || fi.Obj == nil {
		return false
	}
	sig := fi.Obj.Type().(*types.Signature)
	return idx < sig.Params().Len() && info.Uses[id] == sig.Params().At(idx)
}
