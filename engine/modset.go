package main

// Syntactic write-set (frame) inference: for every function of the module the
// set of heap keys it may write, closed over static callees, all
// implementations of module interfaces and functions whose address is taken.

import (
	"go/ast"
	"go/token"
	"go/types"
	"strings"
)

// collectWrites records locals assigned and heap keys written (directly or via calls) in n.
func collectWrites(prog *Program, info *types.Info, n ast.Node, vars map[*types.Var]bool, keys map[string]bool, reg *Registry) {
	handledAddr := map[*ast.UnaryExpr]bool{}
	var lhs func(e ast.Expr)
	lhs = func(e ast.Expr) {
		e = ast.Unparen(e)
		switch e := e.(type) {
		case *ast.Ident:
			if v, ok := info.ObjectOf(e).(*types.Var); ok {
				if v.Pkg() != nil && v.Parent() == v.Pkg().Scope() {
					keys["G:"+shortPkg(v.Pkg().Path())+"."+v.Name()] = true
				} else if vars != nil {
					vars[v] = true
				}
			}
		case *ast.SelectorExpr:
			sel, ok := info.Selections[e]
			if !ok {
				lhs(e.Sel)
				return
			}
			// find the last pointer hop on the path: that field is the heap location written
			curT := typeOf(info, e.X)
			var lastKey string
			rootIsValue := true
			for _, idx := range sel.Index() {
				owner := curT
				isPtr := false
				if p, ok := types.Unalias(curT).Underlying().(*types.Pointer); ok {
					isPtr = true
					owner = p.Elem()
				}
				stt, ok := owner.Underlying().(*types.Struct)
				if !ok {
					return
				}
				f := stt.Field(idx)
				if isPtr {
					lastKey = fieldHeapKey(owner, f.Name())
					rootIsValue = false
				}
				curT = f.Type()
			}
			if lastKey != "" {
				keys[lastKey] = true
			}
			if rootIsValue || lastKey == "" {
				lhs(e.X)
			}
		case *ast.IndexExpr:
			xt := typeOf(info, e.X)
			switch t := xt.Underlying().(type) {
			case *types.Map:
				ks, vs := reg.sortOf(t.Key()), reg.sortOf(t.Elem())
				keys["MD:"+ks] = true
				keys["MV:"+ks+"|"+vs] = true
			default:
				lhs(e.X)
			}
		case *ast.StarExpr:
			if pt, ok := typeOf(info, e.X).Underlying().(*types.Pointer); ok {
				derefKeys(pt.Elem(), keys, reg)
			}
		}
	}
	ast.Inspect(n, func(x ast.Node) bool {
		switch x := x.(type) {
		case *ast.AssignStmt:
			for _, l := range x.Lhs {
				lhs(l)
			}
		case *ast.IncDecStmt:
			lhs(x.X)
		case *ast.RangeStmt:
			if x.Tok == token.ASSIGN {
				if x.Key != nil {
					lhs(x.Key)
				}
				if x.Value != nil {
					lhs(x.Value)
				}
			} else if vars != nil {
				for _, e := range []ast.Expr{x.Key, x.Value} {
					if id, ok := e.(*ast.Ident); ok {
						if v, ok := info.Defs[id].(*types.Var); ok {
							vars[v] = true
						}
					}
				}
			}
		case *ast.UnaryExpr:
			if x.Op == token.AND && !handledAddr[x] {
				// &x stored or passed to unknown code: it may be written through later
				if _, isLit := ast.Unparen(x.X).(*ast.CompositeLit); !isLit {
					lhs(x.X)
				}
			}
		case *ast.CallExpr:
			if id, ok := ast.Unparen(x.Fun).(*ast.Ident); ok {
				if b, ok := info.Uses[id].(*types.Builtin); ok {
					if b.Name() == "delete" && len(x.Args) > 0 {
						if mt, ok := typeOf(info, x.Args[0]).Underlying().(*types.Map); ok {
							keys["MD:"+reg.sortOf(mt.Key())] = true
						}
					}
					return true
				}
			}
			// a closure bound to a local variable: its writes happen at the call
			if id, ok := ast.Unparen(x.Fun).(*ast.Ident); ok && closureLits != nil {
				if v, ok := info.Uses[id].(*types.Var); ok {
					if lit := closureLits[v]; lit != nil && !closureBusy[lit] {
						closureBusy[lit] = true
						collectWrites(prog, info, lit.Body, vars, keys, reg)
						delete(closureBusy, lit)
						return true
					}
				}
			}
			callee := calleeOf(info, x)
			if callee != nil && callee.Pkg() != nil && strings.HasPrefix(callee.Pkg().Path(), modPath) {
				// &lv arguments: written only if the callee writes locations of that type
				for _, a := range x.Args {
					ue, ok := ast.Unparen(a).(*ast.UnaryExpr)
					if !ok || ue.Op != token.AND {
						continue
					}
					if _, isLit := ast.Unparen(ue.X).(*ast.CompositeLit); isLit {
						continue
					}
					handledAddr[ue] = true
					pt, ok := typeOf(info, ue).Underlying().(*types.Pointer)
					if !ok {
						continue
					}
					dk := map[string]bool{}
					derefKeys(pt.Elem(), dk, reg)
					if prog.condEdge != nil {
						lk := map[string]bool{}
						saveKeys := keys
						keys = lk
						lhs(ue.X)
						keys = saveKeys
						prog.condEdge(callee.Origin(), dk, lk)
						continue
					}
					hit := false
					for k := range prog.modSetOf(callee) {
						if dk[k] {
							hit = true
						}
					}
					if hit {
						lhs(ue.X)
					}
				}
			}
			if callee != nil {
				for k := range prog.modSetOf(callee) {
					keys[k] = true
				}
				// sort.Slice / sort.Strings permute their argument in place
				if callee.Pkg() != nil && callee.Pkg().Path() == "sort" && len(x.Args) > 0 {
					lhs(x.Args[0])
				}
				// pointer receivers of by-value struct locals: x.M() with M on *T
				if se, ok := ast.Unparen(x.Fun).(*ast.SelectorExpr); ok {
					if sel, ok := info.Selections[se]; ok && sel.Kind() == types.MethodVal {
						if _, isPtr := typeOf(info, se.X).Underlying().(*types.Pointer); !isPtr && !isInterface(typeOf(info, se.X)) {
							if rs := callee.Type().(*types.Signature).Recv(); rs != nil {
								if _, wantPtr := rs.Type().(*types.Pointer); wantPtr && len(sel.Index()) == 1 {
									lhs(se.X)
								}
							}
						}
					}
				}
			} else {
				// call through a function value: union over address-taken functions
				for k := range prog.funcValueModSet() {
					keys[k] = true
				}
			}
		}
		return true
	})
}

func derefKeys(elem types.Type, keys map[string]bool, reg *Registry) {
	if stt, ok := elem.Underlying().(*types.Struct); ok {
		if _, named := types.Unalias(elem).(*types.Named); named {
			for i := 0; i < stt.NumFields(); i++ {
				keys[fieldHeapKey(elem, stt.Field(i).Name())] = true
			}
			return
		}
	}
	keys["C:"+reg.sortOf(elem)] = true
}

func calleeOf(info *types.Info, call *ast.CallExpr) *types.Func {
	fun := ast.Unparen(call.Fun)
	switch f := fun.(type) {
	case *ast.IndexExpr:
		fun = f.X
	case *ast.IndexListExpr:
		fun = f.X
	}
	switch f := fun.(type) {
	case *ast.Ident:
		if fn, ok := info.Uses[f].(*types.Func); ok {
			return fn
		}
	case *ast.SelectorExpr:
		if sel, ok := info.Selections[f]; ok {
			if sel.Kind() == types.MethodVal {
				return sel.Obj().(*types.Func)
			}
			return nil
		}
		if fn, ok := info.Uses[f.Sel].(*types.Func); ok {
			return fn
		}
	}
	return nil
}

var modsetReg = NewRegistry()

// closures bound to locals of the function currently analysed (set per function)
var closureLits map[*types.Var]*ast.FuncLit
var closureBusy = map[*ast.FuncLit]bool{}

func collectClosureLits(info *types.Info, body ast.Node) map[*types.Var]*ast.FuncLit {
	out := map[*types.Var]*ast.FuncLit{}
	ast.Inspect(body, func(n ast.Node) bool {
		as, ok := n.(*ast.AssignStmt)
		if !ok {
			return true
		}
		for i, r := range as.Rhs {
			lit, ok := ast.Unparen(r).(*ast.FuncLit)
			if !ok || i >= len(as.Lhs) {
				continue
			}
			if id, ok := as.Lhs[i].(*ast.Ident); ok {
				if v, ok := info.ObjectOf(id).(*types.Var); ok {
					out[v] = lit
				}
			}
		}
		return true
	})
	return out
}

func (p *Program) computeModSets() {
	p.ModSets = map[*types.Func]map[string]bool{}
	p.AddrTaken = map[*types.Func]bool{}
	direct := map[*types.Func]map[string]bool{}
	callees := map[*types.Func][]*types.Func{}
	viaFuncValue := map[*types.Func]bool{}
	type condEdgeT struct {
		caller, callee *types.Func
		dk, lk         map[string]bool
	}
	var condEdges []condEdgeT
	for _, fi := range p.Funcs {
		if fi.Obj == nil {
			continue
		}
		keys := map[string]bool{}
		info := fi.Pkg.TypesInfo
		// direct writes only: use a shallow program without modsets
		shallow := &Program{ModSets: map[*types.Func]map[string]bool{}, Pkgs: p.Pkgs}
		shallow.fvSet = map[string]bool{}
		caller := fi.Obj
		closureLits = collectClosureLits(info, fi.Decl.Body)
		shallow.condEdge = func(callee *types.Func, dk, lk map[string]bool) {
			condEdges = append(condEdges, condEdgeT{caller, callee, dk, lk})
		}
		collectWrites(shallow, info, fi.Decl.Body, nil, keys, modsetReg)
		direct[fi.Obj] = keys
		ast.Inspect(fi.Decl.Body, func(n ast.Node) bool {
			switch n := n.(type) {
			case *ast.CallExpr:
				if c := calleeOf(info, n); c != nil {
					callees[fi.Obj] = append(callees[fi.Obj], c.Origin())
				} else if id, ok := ast.Unparen(n.Fun).(*ast.Ident); ok {
					if _, isB := info.Uses[id].(*types.Builtin); !isB {
						if tv, ok := info.Types[n.Fun]; !ok || !tv.IsType() {
							viaFuncValue[fi.Obj] = true
						}
					}
				} else if tv, ok := info.Types[n.Fun]; ok && !tv.IsType() {
					if _, isLitCall := ast.Unparen(n.Fun).(*ast.CallExpr); !isLitCall {
						viaFuncValue[fi.Obj] = true
					}
				}
			}
			return true
		})
		// address-taken functions (used as values, not called)
		markAddrTaken(info, fi.Decl.Body, p.AddrTaken)
	}
	// interface methods of module interfaces -> implementations
	impls := map[*types.Func][]*types.Func{}
	for _, pkg := range p.Pkgs {
		sc := pkg.Types.Scope()
		for _, n := range sc.Names() {
			tn, ok := sc.Lookup(n).(*types.TypeName)
			if !ok {
				continue
			}
			it, ok := tn.Type().Underlying().(*types.Interface)
			if !ok {
				continue
			}
			for _, fi := range p.Funcs {
				if fi.Obj == nil {
					continue
				}
				sig := fi.Obj.Type().(*types.Signature)
				if sig.Recv() == nil {
					continue
				}
				rt := sig.Recv().Type()
				if !types.Implements(rt, it) {
					if pt, ok := rt.(*types.Pointer); !ok || !types.Implements(pt, it) {
						continue
					}
				}
				for i := 0; i < it.NumMethods(); i++ {
					if it.Method(i).Name() == fi.Obj.Name() {
						impls[it.Method(i)] = append(impls[it.Method(i)], fi.Obj)
					}
				}
			}
		}
	}
	// fixpoint
	for f, d := range direct {
		m := map[string]bool{}
		for k := range d {
			m[k] = true
		}
		p.ModSets[f] = m
	}
	for im := range impls {
		p.ModSets[im] = map[string]bool{}
	}
	changed := true
	for changed {
		changed = false
		add := func(dst *types.Func, src map[string]bool) {
			m := p.ModSets[dst]
			if m == nil {
				m = map[string]bool{}
				p.ModSets[dst] = m
			}
			for k := range src {
				if !m[k] {
					m[k] = true
					changed = true
				}
			}
		}
		for f, cs := range callees {
			for _, c := range cs {
				if ms, ok := p.ModSets[c]; ok {
					add(f, ms)
				}
			}
		}
		for im, fs := range impls {
			for _, f := range fs {
				add(im, p.ModSets[f])
			}
		}
		for _, ce := range condEdges {
			hit := false
			for k := range p.ModSets[ce.callee] {
				if ce.dk[k] {
					hit = true
				}
			}
			if hit {
				add(ce.caller, ce.lk)
			}
		}
		fv := map[string]bool{}
		for f := range p.AddrTaken {
			for k := range p.ModSets[f] {
				fv[k] = true
			}
		}
		for f := range viaFuncValue {
			add(f, fv)
		}
		p.fvSet = fv
	}
}

func markAddrTaken(info *types.Info, body ast.Node, out map[*types.Func]bool) {
	called := map[ast.Expr]bool{}
	ast.Inspect(body, func(n ast.Node) bool {
		if ce, ok := n.(*ast.CallExpr); ok {
			called[ast.Unparen(ce.Fun)] = true
		}
		return true
	})
	ast.Inspect(body, func(n ast.Node) bool {
		switch e := n.(type) {
		case *ast.Ident:
			if called[e] {
				return true
			}
			if f, ok := info.Uses[e].(*types.Func); ok && f.Pkg() != nil && strings.HasPrefix(f.Pkg().Path(), modPath) {
				out[f.Origin()] = true
			}
		case *ast.SelectorExpr:
			if called[e] {
				return false
			}
			if sel, ok := info.Selections[e]; ok && sel.Kind() == types.MethodVal {
				if f, ok := sel.Obj().(*types.Func); ok && f.Pkg() != nil && strings.HasPrefix(f.Pkg().Path(), modPath) {
					out[f.Origin()] = true
				}
			}
		}
		return true
	})
	// package-level initialisers (DefaultTransformers) are handled conservatively elsewhere
}

func (p *Program) modSetOf(f *types.Func) map[string]bool {
	if f == nil {
		return nil
	}
	return p.ModSets[f.Origin()]
}

func (p *Program) funcValueModSet() map[string]bool { return p.fvSet }

// globalInit returns the initialiser expression of a package-level variable that is never
// assigned anywhere in the module (so it keeps its initial value), else nil.
func (p *Program) globalInit(v *types.Var) *globalInitInfo {
	if p.globals == nil {
		p.globals = map[*types.Var]*globalInitInfo{}
		written := map[string]bool{}
		for _, ms := range p.ModSets {
			for k := range ms {
				if strings.HasPrefix(k, "G:") {
					written[k] = true
				}
			}
		}
		for _, pkg := range p.Pkgs {
			for _, f := range pkg.Syntax {
				for _, d := range f.Decls {
					gd, ok := d.(*ast.GenDecl)
					if !ok || gd.Tok != token.VAR {
						continue
					}
					for _, sp := range gd.Specs {
						vs := sp.(*ast.ValueSpec)
						for i, n := range vs.Names {
							obj, _ := pkg.TypesInfo.Defs[n].(*types.Var)
							if obj == nil || i >= len(vs.Values) || len(vs.Values) != len(vs.Names) {
								continue
							}
							key := "G:" + shortPkg(pkg.PkgPath) + "." + n.Name
							if written[key] {
								continue
							}
							p.globals[obj] = &globalInitInfo{expr: vs.Values[i], pkg: pkg}
						}
					}
				}
			}
		}
	}
	return p.globals[v]
}

func (p *Program) everWritten(key string) bool {
	if p.allWritten == nil {
		p.allWritten = map[string]bool{}
		for _, ms := range p.ModSets {
			for k := range ms {
				p.allWritten[k] = true
			}
		}
	}
	return p.allWritten[key]
}

// ---------------------------------------------------------------------------
// read sets: heap keys a function may read (used as the arguments of the
// uninterpreted function that stands for a pure function's result)

func collectReads(info *types.Info, n ast.Node, keys map[string]bool, reg *Registry) {
	ast.Inspect(n, func(x ast.Node) bool {
		switch e := x.(type) {
		case *ast.SelectorExpr:
			sel, ok := info.Selections[e]
			if !ok || sel.Kind() != types.FieldVal {
				return true
			}
			curT := typeOf(info, e.X)
			for _, idx := range sel.Index() {
				owner := curT
				isPtr := false
				if p, ok := types.Unalias(curT).Underlying().(*types.Pointer); ok {
					isPtr = true
					owner = p.Elem()
				}
				stt, ok := owner.Underlying().(*types.Struct)
				if !ok {
					return true
				}
				f := stt.Field(idx)
				if isPtr {
					keys[fieldHeapKey(owner, f.Name())] = true
				}
				curT = f.Type()
			}
		case *ast.IndexExpr:
			if mt, ok := typeOf(info, e.X).Underlying().(*types.Map); ok {
				ks, vs := reg.sortOf(mt.Key()), reg.sortOf(mt.Elem())
				keys["MD:"+ks] = true
				keys["MV:"+ks+"|"+vs] = true
			}
		case *ast.RangeStmt:
			if mt, ok := typeOf(info, e.X).Underlying().(*types.Map); ok {
				ks, vs := reg.sortOf(mt.Key()), reg.sortOf(mt.Elem())
				keys["MD:"+ks] = true
				keys["MV:"+ks+"|"+vs] = true
			}
		case *ast.StarExpr:
			if tv, ok := info.Types[e]; ok && !tv.IsType() {
				if pt, ok := typeOf(info, e.X).Underlying().(*types.Pointer); ok {
					derefKeys(pt.Elem(), keys, reg)
				}
			}
		case *ast.CallExpr:
			if id, ok := ast.Unparen(e.Fun).(*ast.Ident); ok {
				if b, ok := info.Uses[id].(*types.Builtin); ok && b.Name() == "len" && len(e.Args) == 1 {
					if mt, ok := typeOf(info, e.Args[0]).Underlying().(*types.Map); ok {
						keys["MD:"+reg.sortOf(mt.Key())] = true
					}
				}
			}
		case *ast.Ident:
			if v, ok := info.Uses[e].(*types.Var); ok && v.Pkg() != nil && v.Parent() == v.Pkg().Scope() {
				keys["G:"+shortPkg(v.Pkg().Path())+"."+v.Name()] = true
			}
		}
		return true
	})
}

func (p *Program) computeReadSets() {
	p.ReadSets = map[*types.Func]map[string]bool{}
	callees := map[*types.Func][]*types.Func{}
	unknownCall := map[*types.Func]bool{}
	for _, fi := range p.Funcs {
		if fi.Obj == nil {
			continue
		}
		keys := map[string]bool{}
		info := fi.Pkg.TypesInfo
		collectReads(info, fi.Decl.Body, keys, modsetReg)
		p.ReadSets[fi.Obj] = keys
		ast.Inspect(fi.Decl.Body, func(n ast.Node) bool {
			if ce, ok := n.(*ast.CallExpr); ok {
				if c := calleeOf(info, ce); c != nil {
					callees[fi.Obj] = append(callees[fi.Obj], c.Origin())
				} else if tv, ok := info.Types[ce.Fun]; ok && !tv.IsType() {
					if id, ok := ast.Unparen(ce.Fun).(*ast.Ident); ok {
						if _, isB := info.Uses[id].(*types.Builtin); isB {
							return true
						}
					}
					unknownCall[fi.Obj] = true
				}
			}
			return true
		})
	}
	// interface methods: union over implementations (same as for modsets)
	changed := true
	for changed {
		changed = false
		for f, cs := range callees {
			for _, c := range cs {
				src := p.ReadSets[c]
				if src == nil {
					// interface method of the module: union of implementations
					for impl, ms := range p.ReadSets {
						if impl.Name() == c.Name() && impl != c {
							if sig, ok := c.Type().(*types.Signature); ok && sig.Recv() != nil && isInterface(sig.Recv().Type()) {
								for k := range ms {
									if !p.ReadSets[f][k] {
										p.ReadSets[f][k] = true
										changed = true
									}
								}
							}
						}
					}
					continue
				}
				for k := range src {
					if !p.ReadSets[f][k] {
						p.ReadSets[f][k] = true
						changed = true
					}
				}
			}
		}
	}
	for f := range unknownCall {
		p.ReadSets[f]["!unknown"] = true
	}
	// propagate the unknown marker
	changed = true
	for changed {
		changed = false
		for f, cs := range callees {
			for _, c := range cs {
				if p.ReadSets[c]["!unknown"] && !p.ReadSets[f]["!unknown"] {
					p.ReadSets[f]["!unknown"] = true
					changed = true
				}
			}
		}
	}
}
