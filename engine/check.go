package main

import (
	"fmt"
	"os"
	"path/filepath"
	"runtime"
	"sort"
)

type RunCfg struct {
	Repo, Mirror, Tier, Out string
	DumpSynth, Verbose     bool
}

func (c *RunCfg) solverCfg(sub string) *SolverCfg {
	dir := filepath.Join(c.Out, "smt", sub)
	os.RemoveAll(dir)
	os.MkdirAll(dir, 0o755)
	t := 10
	if c.Tier == "thorough" {
		t = 60
	}
	return &SolverCfg{OutDir: dir, TimeoutS: t, Parallel: runtime.NumCPU(), CrossCheck: c.Tier == "thorough"}
}

func loadOrDie(cfg *RunCfg) *Program {
	prog, err := LoadProgram(cfg.Repo, cfg.Mirror)
	if err != nil {
		fmt.Fprintln(os.Stderr, "ENGINE-ERROR:", err)
		os.Exit(2)
	}
	if cfg.DumpSynth {
		d := filepath.Join(cfg.Out, "synth")
		os.MkdirAll(d, 0o755)
		for k, s := range prog.SynthSrc {
			os.WriteFile(filepath.Join(d, sanitize(k)+".go"), []byte(s), 0o644)
		}
	}
	return prog
}

func runFuncs(cfg *RunCfg, keys []string) int {
	prog := loadOrDie(cfg)
	var results []*UnitResult
	for _, k := range keys {
		if fi, ok := prog.Funcs[k]; ok {
			results = append(results, VerifyFunc(prog, fi, cfg.Tier))
			continue
		}
		found := false
		for _, lm := range prog.CS.Lemmas {
			if lm.Key == k {
				results = append(results, VerifyLemma(prog, lm))
				found = true
			}
		}
		if !found {
			fmt.Fprintln(os.Stderr, "unknown function", k)
			return 2
		}
	}
	solveAll(results, cfg.solverCfg("debug"))
	rc := 0
	for _, r := range results {
		fmt.Printf("== %s  (%d obligations)\n", r.Key, len(r.Obligations))
		if r.EngineError != "" {
			fmt.Println("   ENGINE ERROR:", r.EngineError)
			rc = 2
		}
		for _, o := range r.Obligations {
			fmt.Printf("   %-14s %-70s inst=%d %s %.2fs %v\n", o.Status, o.Name, len(o.Instances), o.Solver, o.TimeS, o.Props)
			if o.Status == "failed" || o.Status == "undecided" || o.Status == "cover-failed" {
				rc = 1
				fmt.Printf("      %s\n      %s\n", o.Desc, o.SMTFile)
				if cfg.Verbose {
					fmt.Println(o.Model)
					fmt.Println(o.Output)
				}
			}
		}
		if len(r.HavocCalls) > 0 {
			fmt.Println("   havoc calls:", r.HavocCalls)
		}
		if len(r.Unmodelled) > 0 {
			fmt.Println("   unmodelled:", r.Unmodelled)
		}
		sort.Strings(r.Notes)
		if len(r.Notes) > 0 {
			fmt.Println("   notes:", r.Notes)
		}
	}
	return rc
}

func runProperty(cfg *RunCfg, id string) int { return 2 }
func runAll(cfg *RunCfg) int                { return 2 }
func runReplay(cfg *RunCfg, f string) int   { return 2 }
