package main

// Property driver: selects the functions a property depends on, verifies them,
// decides the property and writes the evidence file.

import (
	"go/types"
	"regexp"
	"os/exec"
	"crypto/sha256"
	"encoding/json"
	"fmt"
	"go/printer"
	"os"
	"path/filepath"
	"runtime"
	"sort"
	"strconv"
	"strings"
	"time"
)

type RunCfg struct {
	Repo, Mirror, Tier, Out string
	DumpSynth, Verbose     bool
	WritingBaseline        bool
	EvidenceDir            string
	VerifDir               string
}

func (c *RunCfg) solverCfg(sub string) *SolverCfg {
	dir := filepath.Join(c.Out, "smt", sub)
	os.RemoveAll(dir)
	os.MkdirAll(dir, 0o755)
	t := 10
	if c.Tier == "thorough" {
		t = 60
	}
	return &SolverCfg{OutDir: dir, TimeoutS: t, Parallel: runtime.NumCPU(), CrossCheck: c.Tier == "thorough"}
}

// baselinePath: VERIF_BASELINE redirects the baseline file (development only: trying an engine change without
// disturbing checks that are running against the committed baseline)
func baselinePath(verifDir string) string {
	if p := os.Getenv("VERIF_BASELINE"); p != "" {
		return p
	}
	return filepath.Join(verifDir, "baseline_obligations.json")
}

func loadOrDie(cfg *RunCfg) *Program {
	if BaselineLocals == nil {
		verifDir := cfg.VerifDir
		if verifDir == "" {
			verifDir = "/verif"
		}
		var b Baseline
		if readJSON(baselinePath(verifDir), &b) {
			BaselineLocals = b.ContractLocals
		}
	}
	prog, err := LoadProgram(cfg.Repo, cfg.Mirror)
	if err != nil {
		fmt.Fprintln(os.Stderr, "ENGINE-ERROR:", err)
		os.Exit(2)
	}
	for _, st := range prog.CS.Stale {
		fmt.Fprintln(os.Stderr, "STALE-CONTRACT:", st)
	}
	for _, rb := range prog.CS.Rebound {
		fmt.Fprintln(os.Stderr, "REBOUND-CONTRACT:", rb)
	}
	if cfg.DumpSynth {
		d := filepath.Join(cfg.Out, "synth")
		os.MkdirAll(d, 0o755)
		for k, s := range prog.SynthSrc {
			os.WriteFile(filepath.Join(d, sanitize(k)+".go"), []byte(s), 0o644)
		}
	}
	return prog
}

func runFuncs(cfg *RunCfg, keys []string) int {
	prog := loadOrDie(cfg)
	var results []*UnitResult
	for _, k := range keys {
		if fi, ok := prog.Funcs[k]; ok {
			if os.Getenv("VERIF_SHOW_MODSET") != "" {
				fmt.Printf("modset %s: %v\n", k, sortedKeys(prog.ModSets[fi.Obj.Origin()]))
				continue
			}
			results = append(results, VerifyFunc(prog, fi, cfg.Tier))
			continue
		}
		found := false
		for _, lm := range prog.CS.Lemmas {
			if lm.Key == k {
				results = append(results, VerifyLemma(prog, lm))
				found = true
			}
		}
		if !found {
			fmt.Fprintln(os.Stderr, "unknown function", k)
			return 2
		}
	}
	solveAll(results, cfg.solverCfg("debug"))
	rc := 0
	for _, r := range results {
		fmt.Printf("== %s  (%d obligations)\n", r.Key, len(r.Obligations))
		if r.EngineError != "" {
			fmt.Println("   ENGINE ERROR:", r.EngineError)
			rc = 2
		}
		for _, o := range r.Obligations {
			fmt.Printf("   %-14s %-70s inst=%d %s %.2fs %v\n", o.Status, o.Name, len(o.Instances), o.Solver, o.TimeS, o.Props)
			if o.Status == "failed" || o.Status == "undecided" || o.Status == "cover-failed" || o.Status == "engine-error" {
				if rc == 0 {
					rc = 1
				}
				fmt.Printf("      %s  [%s]\n      %s\n", o.Desc, o.Pos, o.SMTFile)
				if o.FailInst < len(o.Instances) && o.Instances[o.FailInst].Note != "" {
					fmt.Printf("      failing conjunct: %s\n", o.Instances[o.FailInst].Note)
				}
				if cfg.Verbose {
					fmt.Println(modelSummary(o.Model))
					fmt.Println(o.Output)
				}
			}
		}
		if len(r.HavocCalls) > 0 {
			fmt.Println("   havoc calls:", r.HavocCalls)
		}
		if len(r.Unmodelled) > 0 {
			fmt.Println("   unmodelled:", r.Unmodelled)
		}
		sort.Strings(r.Notes)
		if len(r.Notes) > 0 {
			fmt.Println("   notes:", r.Notes)
		}
	}
	return rc
}

// modelSummary keeps the interesting part of a model (parameters and small constants).
func modelSummary(m string) string {
	var keep []string
	lines := strings.Split(m, "\n")
	for i := 0; i < len(lines); i++ {
		l := lines[i]
		if strings.Contains(l, "define-fun p_") || strings.Contains(l, "define-fun r_") || strings.Contains(l, "define-fun hv_") {
			if i+1 < len(lines) {
				keep = append(keep, strings.TrimSpace(l)+" "+strings.TrimSpace(lines[i+1]))
			}
		}
	}
	if len(keep) > 40 {
		keep = keep[:40]
	}
	return strings.Join(keep, "\n")
}

// ---------------------------------------------------------------------------

type KnownFindings struct {
	Findings []struct {
		Property   string `json:"property"`
		Obligation string `json:"obligation"`
		What       string `json:"what"`
		Input      string `json:"input"`
	} `json:"findings"`
	Fixed []string `json:"fixed"`
}

type Baseline struct {
	Properties map[string]map[string]struct {
		Solver string  `json:"solver"`
		TimeS  float64 `json:"time_s"`
	} `json:"properties"`
	// local variables (name -> type) each contract's clauses could see when the baseline was written
	ContractLocals map[string]map[string]string `json:"contract_locals"`
}

func readJSON(path string, v interface{}) bool {
	data, err := os.ReadFile(path)
	if err != nil {
		return false
	}
	return json.Unmarshal(data, v) == nil
}

func hasProp(props []string, id string) bool {
	for _, p := range props {
		if p == id {
			return true
		}
	}
	return false
}

// contractsForProperty: keys of functions (and lemmas) that carry a clause for the property.
func contractsForProperty(prog *Program, id string) ([]string, []*Contract) {
	var keys []string
	for _, k := range prog.CS.Order {
		c := prog.CS.Funcs[k]
		if c == nil {
			continue // stale contract (function no longer exists)
		}
		if hasProp(c.Props, id) {
			keys = append(keys, k)
			continue
		}
		if id == "C13" {
			continue // safety is claimed per function (function-level props), not through clause tags
		}
		all := append(append(append([]*Clause{}, c.Requires...), c.Ensures...), c.Asserts...)
		for _, ls := range c.Loops {
			all = append(all, ls.Invariants...)
		}
		for _, cl := range all {
			if hasProp(cl.Props, id) {
				keys = append(keys, k)
				break
			}
		}
	}
	var lemmas []*Contract
	for _, lm := range prog.CS.Lemmas {
		if hasProp(lm.Props, id) {
			lemmas = append(lemmas, lm)
		}
	}
	return keys, lemmas
}

func srcHash(prog *Program, fi *FuncInfo) string {
	var b strings.Builder
	printer.Fprint(&b, prog.Fset, fi.Decl)
	return fmt.Sprintf("%x", sha256.Sum256([]byte(b.String())))[:16]
}

type obReport struct {
	Name      string   `json:"name"`
	Kind      string   `json:"kind"`
	Status    string   `json:"status"`
	Backend   string   `json:"backend"`
	TimeS     float64  `json:"solver_time_s"`
	Instances int      `json:"path_instances"`
	Props     []string `json:"props,omitempty"`
	Why       string   `json:"in_claim_because"`
}

func runProperty(cfg *RunCfg, id string) int {
	start := time.Now()
	prog := loadOrDie(cfg)
	rc, _ := checkProperty(cfg, prog, id, start)
	return rc
}

func runAll(cfg *RunCfg, writeBaseline bool) int {
	cfg.WritingBaseline = writeBaseline
	prog := loadOrDie(cfg)
	ids := manifestProperties(cfg)
	if len(ids) == 0 {
		ids = claimedProperties(prog)
	}
	worst := 0
	base := map[string]map[string]map[string]interface{}{}
	for _, id := range ids {
		rc, ev := checkProperty(cfg, prog, id, time.Now())
		if rc > worst {
			worst = rc
		}
		if ev != nil {
			m := map[string]map[string]interface{}{}
			cov := ev["coverage"].(map[string]interface{})
			for _, o := range cov["per_obligation"].([]obReport) {
				if o.Status == "discharged" {
					m[o.Name] = map[string]interface{}{"solver": o.Backend, "time_s": o.TimeS}
				}
			}
			base[id] = m
		}
	}
	if writeBaseline {
		if worst != 0 {
			fmt.Fprintln(os.Stderr, "baseline NOT written: some property is not green")
			return worst
		}
		dir := cfg.VerifDir
		if dir == "" {
			dir = "/verif"
		}
		data, _ := json.MarshalIndent(map[string]interface{}{"properties": base, "contract_locals": prog.contractLocals()}, "", " ")
		os.WriteFile(baselinePath(dir), data, 0o644)
		fmt.Println("baseline written")
	}
	return worst
}

// manifestProperties: the properties claimed in MANIFEST.json
func manifestProperties(cfg *RunCfg) []string {
	dir := cfg.VerifDir
	if dir == "" {
		dir = "/verif"
	}
	var m struct {
		Checks []struct {
			PropertyID string `json:"property_id"`
		} `json:"checks"`
	}
	if !readJSON(filepath.Join(dir, "MANIFEST.json"), &m) {
		return nil
	}
	var ids []string
	for _, c := range m.Checks {
		ids = append(ids, c.PropertyID)
	}
	return ids
}

func claimedProperties(prog *Program) []string {
	set := map[string]bool{}
	for _, c := range prog.CS.Funcs {
		for _, p := range c.Props {
			set[p] = true
		}
		for _, cl := range append(append([]*Clause{}, c.Requires...), c.Ensures...) {
			for _, p := range cl.Props {
				set[p] = true
			}
		}
	}
	for _, lm := range prog.CS.Lemmas {
		for _, p := range lm.Props {
			set[p] = true
		}
	}
	var ids []string
	for p := range set {
		ids = append(ids, p)
	}
	sort.Strings(ids)
	return ids
}

func checkProperty(cfg *RunCfg, prog *Program, id string, start time.Time) (int, map[string]interface{}) {
	verifDir := cfg.VerifDir
	if verifDir == "" {
		verifDir = "/verif"
	}
	keys, lemmas := contractsForProperty(prog, id)
	autoC09 := map[string]bool{}
	if id == "C09" {
		// every function that ranges over a map is part of the claim, contract or not
		have := map[string]bool{}
		for _, k := range keys {
			have[k] = true
		}
		for _, k := range prog.mapRangeFuncs() {
			if !have[k] {
				keys = append(keys, k)
				autoC09[k] = true
			}
		}
	}
	if len(keys)+len(lemmas) == 0 && len(sweepsFor(id)) == 0 {
		fmt.Fprintf(os.Stderr, "ENGINE-ERROR: no contract carries property %s\n", id)
		return 2, nil
	}
	autoC17 := map[string]bool{}
	autoPropagate = map[string]bool{}
	if id == "C17" {
		// "a failing run fails": every function of the module whose last result is an error is checked for
		// dropped errors, contract or not
		have := map[string]bool{}
		for _, k := range keys {
			have[k] = true
		}
		for _, k := range prog.errorReturningFuncs() {
			autoPropagate[k] = true
			if !have[k] {
				autoC17[k] = true
			}
		}
	}
	// closure over the contracts used as assumptions
	results := map[string]*UnitResult{}
	direct := map[string]bool{}
	var order []string
	queue := append([]string{}, keys...)
	for _, k := range keys {
		direct[k] = true
	}
	for len(queue) > 0 {
		k := queue[0]
		queue = queue[1:]
		if _, done := results[k]; done {
			continue
		}
		fi := prog.Funcs[k]
		if fi == nil {
			// interface method contract: the implementations are checked against it
			for _, impl := range prog.implementationsOf(k) {
				queue = append(queue, impl)
			}
			results[k] = &UnitResult{Key: k, Reg: NewRegistry()}
			continue
		}
		if fi.Con != nil && fi.Con.Trusted {
			results[k] = &UnitResult{Key: k, Reg: NewRegistry(), Notes: []string{"TRUSTED contract, assumed without proof: " + k}}
			order = append(order, k)
			continue
		}
		r := VerifyFunc(prog, fi, cfg.Tier)
		r.SrcHash = srcHash(prog, fi)
		results[k] = r
		order = append(order, k)
		for _, used := range r.UsedContracts {
			if _, done := results[used]; !done {
				queue = append(queue, used)
			}
		}
	}
	// C17: functions that are neither claimed nor a dependency are checked for dropped errors only
	for _, k := range sortedKeys(autoC17) {
		if _, done := results[k]; done {
			delete(autoC17, k)
			continue
		}
		fi := prog.Funcs[k]
		if fi == nil {
			continue
		}
		r := VerifyFunc(prog, fi, cfg.Tier)
		r.SrcHash = srcHash(prog, fi)
		results[k] = r
		order = append(order, k)
		direct[k] = true
		// the contracts its proof leans on are verified as well
		queue := append([]string{}, r.UsedContracts...)
		for len(queue) > 0 {
			d := queue[0]
			queue = queue[1:]
			if _, done := results[d]; done {
				delete(autoC17, d) // a dependency counts with all its obligations
				continue
			}
			dfi := prog.Funcs[d]
			if dfi == nil {
				results[d] = &UnitResult{Key: d, Reg: NewRegistry()}
				queue = append(queue, prog.implementationsOf(d)...)
				continue
			}
			if dfi.Con != nil && dfi.Con.Trusted {
				results[d] = &UnitResult{Key: d, Reg: NewRegistry(), Notes: []string{"TRUSTED contract, assumed without proof: " + d}}
				order = append(order, d)
				continue
			}
			dr := VerifyFunc(prog, dfi, cfg.Tier)
			dr.SrcHash = srcHash(prog, dfi)
			results[d] = dr
			order = append(order, d)
			delete(autoC17, d)
			queue = append(queue, dr.UsedContracts...)
		}
	}
	for _, lm := range lemmas {
		r := VerifyLemma(prog, lm)
		results[lm.Key] = r
		order = append(order, lm.Key)
		direct[lm.Key] = true
		for _, used := range r.UsedContracts {
			if _, done := results[used]; !done {
				// lemmas use contracts of functions: verify those as well
				if fi := prog.Funcs[used]; fi != nil {
					rr := VerifyFunc(prog, fi, cfg.Tier)
					rr.SrcHash = srcHash(prog, fi)
					results[used] = rr
					order = append(order, used)
				}
			}
		}
	}
	// select obligations that belong to the claim
	var units []*UnitResult
	engineErrors := []string{}
	for _, k := range order {
		r := results[k]
		if r.EngineError != "" {
			if prog.Funcs[k] != nil {
				// a function that is part of the claim and that the engine cannot analyse on THIS tree (a construct
				// outside the verified subset, or verification conditions beyond the size cap): every function of the
				// claim is analysable on the pinned tree, so this is the effect of a change -- the property is not
				// established for the function any more. Reported as an open obligation (no failing input), not as a
				// broken check.
				kind := "assert"
				if autoC17[k] && prog.Funcs[k].Con == nil {
					kind = "propagate"
				}
				if autoC09[k] {
					kind = "commute"
				}
				r.Obligations = []*Obligation{{Name: k + "#outside-verified-subset", Kind: kind, Func: k, Props: []string{id}, Status: "undecided",
					Desc: "the function uses a construct outside the verified subset, so the property cannot be established for it: " + r.EngineError, Output: r.EngineError}}
				r.EngineError = ""
				units = append(units, r)
				continue
			}
			engineErrors = append(engineErrors, k+": "+r.EngineError)
		}
		var sel []*Obligation
		for _, o := range r.Obligations {
			switch {
			case o.Kind == "cover":
				sel = append(sel, o)
			case o.Clause != nil && len(o.Clause.Props) > 0 && !hasProp(o.Clause.Props, id):
				// a clause tagged for specific properties (e.g. safety preconditions, requires@C13) only
				// counts for those properties; it is still assumed where the contract is used
			case id == "C13" && !direct[k] && (isSafetyKind(o.Kind) || o.Kind == "call-pre" || o.Kind == "propagate"):
				// C13 claims the functions that carry it: for their callees only the postconditions they rely on
			case id == "C09" && !direct[k]:
			case id == "C09" && autoC09[k] && o.Kind != "commute":
			case id == "C17" && autoC17[k] && o.Kind != "propagate":
			case isSafetyKind(o.Kind):
				// safety obligations count for C13 for functions that claim C13
				if id == "C13" && direct[k] {
					sel = append(sel, o)
				}
			default:
				sel = append(sel, o)
			}
		}
		r.Obligations = sel
		units = append(units, r)
	}
	scfg := cfg.solverCfg(id)
	solveAll(units, scfg)
	// syntactic sweeps registered for the property
	sweeps := runSweeps(prog, id)

	var known KnownFindings
	readJSON(filepath.Join(verifDir, "known_findings.json"), &known)
	var base Baseline
	haveBase := readJSON(baselinePath(verifDir), &base)

	var reports []obReport
	nObl, nDis, nCover, nCoverOK := 0, 0, 0, 0
	var violations []string
	var undecided []string
	var knownHit []string
	var samples []interface{}
	backendTime := map[string]float64{}
	replayDir := filepath.Join(cfg.Out, "replays")
	os.MkdirAll(replayDir, 0o755)
	seen := map[string]bool{}
	for _, r := range units {
		for _, o := range r.Obligations {
			why := "dependency (contract used as assumption)"
			if direct[r.Key] {
				why = "carries property clause"
			}
			if o.Kind == "cover" {
				nCover++
				if o.Status == "cover-ok" {
					nCoverOK++
				} else {
					violations = append(violations, writeReplay(replayDir, id, o, r, "vacuity: "+o.Desc+" is unsatisfiable", false, prog, cfg))
				}
				continue
			}
			seen[o.Name] = true
			nObl++
			backendTime[o.Solver] += o.TimeS
			reports = append(reports, obReport{Name: o.Name, Kind: o.Kind, Status: o.Status, Backend: o.Solver, TimeS: round3(o.TimeS), Instances: len(o.Instances), Props: o.Props, Why: why})
			switch o.Status {
			case "discharged":
				nDis++
				if len(samples) < 4 && o.SMTFile != "" && direct[r.Key] {
					samples = append(samples, map[string]interface{}{"obligation": o.Name, "kind": o.Kind, "clause": o.Desc, "goal": short(o.Instances[0].Goal), "path_facts": len(o.Instances[0].PC), "answer": "unsat", "backend": o.Solver})
				}
			case "engine-error":
				engineErrors = append(engineErrors, o.Name+": malformed SMT query: "+o.Output)
			case "failed", "undecided":
				if kf := matchKnown(&known, id, o.Name); kf != "" {
					knownHit = append(knownHit, kf)
					fmt.Printf("KNOWN-FINDING: property=%s %s\n", id, kf)
					nObl-- // an open obligation of a recorded defect is reported, not counted as part of the proof
					continue
				}
				isNew := haveBase && base.Properties[id] != nil
				if isNew {
					_, inBase := base.Properties[id][o.Name]
					isNew = !inBase
				}
				if o.Status == "undecided" {
					undecided = append(undecided, o.Name)
				}
				reason := "obligation refuted by the solver (counterexample model attached)"
				if o.Status == "undecided" {
					reason = "obligation no longer discharged (all solvers unknown/timeout)"
					if isNew {
						reason += "; new-obligation (not in the baseline of the pinned tree)"
					}
				}
				violations = append(violations, writeReplay(replayDir, id, o, r, reason, o.Status == "failed", prog, cfg))
			}
		}
	}
	for _, s := range sweeps {
		nObl++
		reports = append(reports, obReport{Name: s.Name, Kind: "sweep", Status: s.Status, Backend: "syntactic sweep over the typed AST", Instances: s.Sites, Why: "carries property clause"})
		if s.Status == "discharged" {
			nDis++
			if len(samples) < 6 {
				samples = append(samples, map[string]interface{}{"obligation": s.Name, "kind": "sweep", "sites": s.Sites, "detail": s.Detail})
			}
		} else {
			if kf := matchKnown(&known, id, s.Name); kf != "" {
				knownHit = append(knownHit, kf)
				fmt.Printf("KNOWN-FINDING: property=%s %s\n", id, kf)
				continue
			}
			o := &Obligation{Name: s.Name, Kind: "sweep", Desc: s.Detail, Status: "failed", Output: strings.Join(s.Offenders, "\n")}
			violations = append(violations, writeReplay(replayDir, id, o, &UnitResult{Key: s.Name, Reg: NewRegistry()}, "sweep found offending site(s): "+strings.Join(s.Offenders, "; "), false, prog, cfg))
		}
	}
	// baseline obligations that disappeared are reported (not a violation by themselves)
	var missing []string
	if haveBase {
		for name := range base.Properties[id] {
			// only obligations that stem from an explicit contract clause (postcondition, in-body assertion, loop
			// invariant, lemma, interface refinement) are tracked: their disappearance means a clause was dropped.
			// Safety, frame, call-precondition, propagation and commutation obligations are generated from the code
			// itself and numbered in source order -- any edit renumbers them; what matters for those is that every
			// obligation of the CURRENT code is discharged.
			if !seen[name] && !strings.HasPrefix(name, "sweep.") && contractDerived(name) {
				missing = append(missing, name)
			}
		}
		sort.Strings(missing)
	}

	// obligations that were discharged on the pinned tree and no longer exist: the property is no
	// longer established for the code they covered (function under contract removed or renamed)
	if len(missing) > 0 && !cfg.WritingBaseline {
		o := &Obligation{Name: "baseline.missing-obligations", Kind: "baseline", Desc: fmt.Sprintf("%d obligations of the baseline no longer exist", len(missing)), Status: "undecided", Output: strings.Join(missing, "\n") + "\nstale contracts: " + strings.Join(prog.CS.Stale, "; ")}
		violations = append(violations, writeReplay(replayDir, id, o, &UnitResult{Key: "baseline", Reg: NewRegistry()}, "obligations discharged on the pinned tree have disappeared (contract key no longer matches the code): "+strings.Join(missing, ", "), false, prog, cfg))
	}
	// evidence
	var funcs []map[string]interface{}
	trusted := map[string]bool{}
	assumptions := map[string]bool{}
	for _, r := range units {
		f := map[string]interface{}{"function": r.Key, "source_sha256_16": r.SrcHash, "obligations": len(r.Obligations), "in_claim": "dependency"}
		if direct[r.Key] {
			f["in_claim"] = "direct"
		}
		if len(r.Unmodelled) > 0 {
			f["partially_modelled"] = r.Unmodelled
		}
		if len(r.HavocCalls) > 0 {
			f["calls_without_contract_havocked"] = r.HavocCalls
		}
		funcs = append(funcs, f)
		for _, e := range r.UsedExt {
			trusted["assumed contract (extlib): "+e] = true
		}
		for _, n := range r.Notes {
			assumptions[n] = true
		}
		for _, h := range r.HavocCalls {
			assumptions["call of "+h+" has no contract: results and its syntactic write-set are havocked (over-approximation)"] = true
		}
	}
	for _, a := range engineAssumptions {
		assumptions[a] = true
	}
	for _, st := range prog.CS.Stale {
		assumptions["STALE contract (function no longer exists, contract skipped): "+st] = true
	}
	for _, s := range prog.CS.Sources {
		assumptions[s] = true
	}
	// thorough tier: the assumed contracts of external functions (extlib.go, the axioms in the contract files) are
	// exercised against the real libraries on generated inputs (bounded, never counted as proved)
	var assumptionChecks map[string]interface{}
	if cfg.Tier == "thorough" {
		assumptionChecks = runConformance(verifDir)
		if ok, _ := assumptionChecks["passed"].(bool); !ok {
			engineErrors = append(engineErrors, "conformance test of an assumed external contract failed: "+fmt.Sprint(assumptionChecks["output"]))
		}
	}
	tb := sortedStrings(trusted)
	tb = append(tb, "the VC generator /verif/engine itself (weakest-precondition style symbolic execution over go/ast+go/types)", "SMT solvers z3 5.1.0 (z3-new), z3 4.8.12, cvc5 1.0.3", "go/packages + go/types for loading and typing /repo's working tree")
	ev := map[string]interface{}{
		"property_id": id,
		"tier":        cfg.Tier,
		"seed":        seedFromEnv(),
		"level":       "proof",
		"wall_s":      round3(time.Since(start).Seconds()),
		"violations":  len(violations),
		"assumptions": sortedStrings(assumptions),
		"coverage": map[string]interface{}{
			"obligations":              nObl,
			"discharged":               nDis,
			"checker_cmd":              "bin/vcheck -property " + id + " -tier " + cfg.Tier,
			"trusted_base":             tb,
			"functions_under_contract": funcs,
			"per_obligation":           reports,
			"cover_checks":             map[string]int{"total": nCover, "satisfiable_or_not_refuted": nCoverOK},
			"undecided":                undecided,
			"known_findings_hit":       knownHit,
			"solver_time_s_by_backend": roundMap(backendTime),
			"baseline_obligations_missing_now": missing,
			"bounded_standins":         []string{},
			"assumption_conformance_checks_bounded": assumptionChecks,
			"samples":                  samples,
			"engine_errors":            engineErrors,
			"explanation":              "every obligation is generated from /repo's current working tree on this run; a function is verified against its own contract and callers see only callee contracts",
		},
	}
	evDir := filepath.Join(verifDir, "evidence")
	if cfg.EvidenceDir != "" {
		evDir = cfg.EvidenceDir
	}
	os.MkdirAll(evDir, 0o755)
	data, _ := json.MarshalIndent(ev, "", " ")
	os.WriteFile(filepath.Join(evDir, id+".json"), data, 0o644)

	if len(engineErrors) > 0 {
		for _, e := range engineErrors {
			fmt.Fprintln(os.Stderr, "ENGINE-ERROR:", e)
		}
		return 2, ev
	}
	if nObl == 0 {
		fmt.Fprintf(os.Stderr, "ENGINE-ERROR: property %s generated zero obligations (vacuity guard)\n", id)
		return 2, ev
	}
	for _, v := range violations {
		fmt.Println(v)
	}
	fmt.Printf("property %s: %d obligations, %d discharged, %d cover checks ok, %d known findings, %.1fs\n", id, nObl, nDis, nCoverOK, len(knownHit), time.Since(start).Seconds())
	if len(violations) > 0 {
		return 1, ev
	}
	return 0, ev
}

var engineAssumptions = []string{
	"integers are mathematical (no overflow); all integers in scope are lengths, indices and small counters",
	"slices have value semantics: two slice values never share a backing array (append aliasing is not modelled)",
	"jennifer statements are immutable terms of a free algebra: in-place mutation through a shared *jen.Statement (missing Clone) is not modelled",
	"external (non-goverter) functions do not write goverter data structures and are deterministic functions of their arguments unless listed as impure in extlib.go",
	"termination is not proved except where a loop carries a decreases clause",
}

func seedFromEnv() int {
	if s := os.Getenv("VERIF_SEED"); s != "" {
		if n, err := strconv.Atoi(s); err == nil {
			return n
		}
	}
	return 0
}

func round3(f float64) float64 { return float64(int(f*1000+0.5)) / 1000 }

func roundMap(m map[string]float64) map[string]float64 {
	out := map[string]float64{}
	for k, v := range m {
		if k == "" {
			k = "none"
		}
		out[k] = round3(v)
	}
	return out
}

func isSafetyKind(k string) bool {
	switch k {
	case "nil", "index", "slice", "panic", "assert-type", "nilmap", "div":
		return true
	}
	return false
}

func matchKnown(k *KnownFindings, id, ob string) string {
	for _, f := range k.Findings {
		if f.Property == id && f.Obligation == ob {
			return fmt.Sprintf("%s fails: %s (input: %s)", ob, f.What, f.Input)
		}
	}
	return ""
}

// implementationsOf: function keys implementing an interface-method contract key
// ("builder.Generator.Build" -> "generator.generator.Build").
func (p *Program) implementationsOf(ifaceKey string) []string {
	con := p.CS.Funcs[ifaceKey]
	if con == nil {
		return nil
	}
	m := p.lookupInterfaceMethod(con)
	if m == nil {
		return nil
	}
	var out []string
	for k, fi := range p.Funcs {
		if fi.Obj == nil || fi.Obj.Name() != m.Name() {
			continue
		}
		if p.implementsMethod(fi, m) {
			out = append(out, k)
		}
	}
	sort.Strings(out)
	return out
}

func writeReplay(dir, id string, o *Obligation, r *UnitResult, reason string, hasModel bool, prog *Program, cfg *RunCfg) string {
	path := filepath.Join(dir, id+"-"+sanitize(o.Name)+".json")
	rep := map[string]interface{}{
		"property":      id,
		"obligation":    o.Name,
		"kind":          o.Kind,
		"clause":        o.Desc,
		"position":      o.Pos,
		"reason":        reason,
		"smt_file":      o.SMTFile,
		"solver_output": o.Output,
		"model":         modelSummary(o.Model),
		"function":      r.Key,
	}
	suffix := " no-failing-input-found"
	if hasModel {
		if ok, detail := tryReplay(prog, cfg, o, r); ok {
			rep["replay"] = detail
			suffix = ""
		} else {
			rep["replay"] = detail
		}
	}
	data, _ := json.MarshalIndent(rep, "", " ")
	os.WriteFile(path, data, 0o644)
	return fmt.Sprintf("VIOLATION property=%s replay=%s%s", id, path, suffix)
}

func runReplay(cfg *RunCfg, f string) int {
	data, err := os.ReadFile(f)
	if err != nil {
		fmt.Fprintln(os.Stderr, err)
		return 2
	}
	fmt.Println(string(data))
	var rep map[string]interface{}
	if json.Unmarshal(data, &rep) != nil {
		return 0
	}
	rs, _ := rep["replay"].(string)
	i := strings.Index(rs, "{")
	if i < 0 {
		return 0
	}
	var detail map[string]interface{}
	if json.Unmarshal([]byte(rs[i:]), &detail) != nil {
		return 0
	}
	cmdline, _ := detail["command"].(string)
	if cmdline == "" {
		return 0
	}
	// run the recorded in-package test against the current tree again
	fmt.Println("---- re-running:", cmdline)
	c := exec.Command("sh", "-c", cmdline)
	c.Env = append(os.Environ(), "GOFLAGS=-mod=mod", "GOPROXY=off", "GOSUMDB=off", "GOTOOLCHAIN=local")
	out, _ := c.CombinedOutput()
	fmt.Println(string(out))
	if strings.Contains(string(out), "REPLAY clause = false") || strings.Contains(string(out), "REPLAY panic in call") {
		fmt.Println("replay: the counterexample still fails on the current tree")
		return 1
	}
	fmt.Println("replay: the counterexample does not fail on the current tree")
	return 0
}

// runSafetySweep: diagnostic, not a MANIFEST command.
func runSafetySweep(cfg *RunCfg) int {
	prog := loadOrDie(cfg)
	var keys []string
	for k := range prog.Funcs {
		keys = append(keys, k)
	}
	sort.Strings(keys)
	var results []*UnitResult
	for _, k := range keys {
		r := VerifyFunc(prog, prog.Funcs[k], cfg.Tier)
		var sel []*Obligation
		for _, o := range r.Obligations {
			if isSafetyKind(o.Kind) || o.Kind == "call-pre" {
				sel = append(sel, o)
			}
		}
		r.Obligations = sel
		results = append(results, r)
	}
	scfg := cfg.solverCfg("sweep")
	scfg.TimeoutS = 3
	solveAll(results, scfg)
	for _, r := range results {
		bad := 0
		for _, o := range r.Obligations {
			if o.Status != "discharged" {
				bad++
			}
		}
		status := "ok"
		if r.EngineError != "" {
			status = "ENGINE: " + r.EngineError
		}
		if bad == 0 && r.EngineError == "" {
			fmt.Printf("CLEAN %s %d\n", r.Key, len(r.Obligations))
		}
		fmt.Printf("%-55s safety=%d open=%d %s\n", r.Key, len(r.Obligations), bad, status)
		for _, o := range r.Obligations {
			if o.Status != "discharged" {
				fmt.Printf("      %-10s %s  [%s]\n", o.Status, o.Desc, o.Pos)
			}
		}
	}
	return 0
}

// runConformance runs /verif/conformance (go test) and summarises the outcome for the evidence file.
func runConformance(verifDir string) map[string]interface{} {
	dir := filepath.Join(verifDir, "conformance")
	cmd := exec.Command("go", "test", "-count=1", "-v", "./...", "-rapid.checks=2000")
	cmd.Dir = dir
	cmd.Env = append(os.Environ(), "GOFLAGS=-mod=mod", "GOPROXY=off", "GOSUMDB=off", "GOTOOLCHAIN=local")
	start := time.Now()
	out, err := cmd.CombinedOutput()
	text := string(out)
	var tests []string
	for _, l := range strings.Split(text, "\n") {
		l = strings.TrimSpace(l)
		if strings.HasPrefix(l, "--- PASS") || strings.HasPrefix(l, "--- FAIL") {
			tests = append(tests, l)
		}
	}
	return map[string]interface{}{
		"cmd":     "cd /verif/conformance && go test -count=1 -v ./... -rapid.checks=2000",
		"passed":  err == nil && !strings.Contains(text, "--- FAIL") && len(tests) > 0,
		"tests":   tests,
		"seconds": round3(time.Since(start).Seconds()),
		"bound":   "property-based (pgregory.net/rapid, 2000 generated cases per test) plus fixed samples; BOUNDED: reduces the risk in the assumptions, proves nothing",
		"output":  firstLines(text, 12),
	}
}

var contractDerivedRe = regexp.MustCompile(`#(post#|at#|loop#[0-9]+#inv#|lemma#|iface#.*#post#)`)

func contractDerived(name string) bool { return contractDerivedRe.MatchString(name) }

// contractLocals: for every contract, the local variables (name -> printed type) that were in scope for its
// loop / in-body clauses. Written into the baseline; used to re-bind a clause when a local was merely renamed.
func (p *Program) contractLocals() map[string]map[string]string {
	out := map[string]map[string]string{}
	for _, sf := range p.SpecFns {
		if sf.Owner == "" || sf.Decl == nil {
			continue
		}
		pkg := p.Pkgs[sf.Pkg]
		if pkg == nil {
			continue
		}
		k := 0
		for _, f := range sf.Decl.Type.Params.List {
			ts := types.TypeString(pkg.TypesInfo.TypeOf(f.Type), qualifierFor(pkg.Types))
			for _, n := range f.Names {
				if k < len(sf.Roles) && strings.HasPrefix(sf.Roles[k], "local:") {
					if out[sf.Owner] == nil {
						out[sf.Owner] = map[string]string{}
					}
					out[sf.Owner][n.Name] = ts
				}
				k++
			}
		}
	}
	return out
}
