package main

// C09: iteration order of a Go map must not be observable. For the body B of a
// `range` over a map, from an arbitrary loop-head state and for two distinct
// unseen keys k1 != k2, the sequences B(k1);B(k2) and B(k2);B(k1) must have the
// same outcome: both leave the loop by `return` with equal values, or both
// continue with equal values of every variable and heap location the body
// writes. Adjacent transpositions generate all orders.

import (
	"fmt"
	"go/ast"
	"go/types"
	"sort"
	"strings"
)

type seqResult struct {
	returns []Outcome // early exits (with the values returned)
	cont    *State    // merged state after both iterations (nil if unreachable)
}

func (u *Unit) runBodyWithKey(s *ast.RangeStmt, st *State, m Val, mt *types.Map, key Val) []Outcome {
	kv, vv := u.rangeVar(s.Key, s), u.rangeVar(s.Value, s)
	if kv != nil {
		st.env[kv] = key
	}
	if vv != nil {
		ks, vs := u.reg.sortOf(mt.Key()), u.reg.sortOf(mt.Elem())
		mvKey := "MV:" + ks + "|" + vs
		// the value is read from the map as it was at loop entry (Go evaluates m[k] at iteration time,
		// bodies that write the ranged map itself are outside the supported pattern)
		h := u.heapTerm(st, mvKey, u.sortOfHeapKey(mvKey))
		st.env[vv] = Val{T: "(select (select " + h + " " + m.T + ") " + key.T + ")", S: vs, GT: mt.Elem()}
	}
	return u.execBlock(s.Body.List, st)
}

func (u *Unit) runSeq(s *ast.RangeStmt, st *State, m Val, mt *types.Map, ka, kb Val) seqResult {
	var res seqResult
	first := u.runBodyWithKey(s, st.clone(), m, mt, ka)
	var cont []*State
	for _, o := range first {
		switch o.kind {
		case oReturn:
			res.returns = append(res.returns, o)
		case oNormal, oContinue:
			cont = append(cont, o.st)
		case oBreak:
			// break: the loop ends without visiting the other key: treated like an early exit without values
			res.returns = append(res.returns, Outcome{kind: oBreak, st: o.st})
		}
	}
	mid := u.mergeAll(cont)
	if mid == nil {
		return res
	}
	second := u.runBodyWithKey(s, mid, m, mt, kb)
	cont = nil
	for _, o := range second {
		switch o.kind {
		case oReturn:
			res.returns = append(res.returns, o)
		case oNormal, oContinue:
			cont = append(cont, o.st)
		case oBreak:
			res.returns = append(res.returns, Outcome{kind: oBreak, st: o.st})
		}
	}
	res.cont = u.mergeAll(cont)
	return res
}

// commuteCheck emits the order-independence obligations of one map-range loop.
func (u *Unit) commuteCheck(s *ast.RangeStmt, head *State, m Val, mt *types.Map, dom0 string, seen Val, ordinal int) {
	if u.inCommute || u.noCommute {
		return
	}
	u.inCommute = true
	savedSafety := u.noSafety
	u.noSafety = true
	defer func() { u.inCommute = false; u.noSafety = savedSafety }()

	mode := ""
	if u.con != nil {
		mode = u.con.MapRange[ordinal]
	}
	unordered := map[string]bool{}
	if strings.HasPrefix(mode, "unordered-result") {
		for _, f := range strings.Fields(mode)[1:] {
			unordered[f] = true
		}
	}
	ks := u.reg.sortOf(mt.Key())
	st := head.clone()
	k1 := Val{T: u.reg.fresh("k1", ks), S: ks, GT: mt.Key()}
	k2 := Val{T: u.reg.fresh("k2", ks), S: ks, GT: mt.Key()}
	st.assume("(select " + dom0 + " " + k1.T + ")")
	st.assume("(select " + dom0 + " " + k2.T + ")")
	st.assume(not("(select " + seen.T + " " + k1.T + ")"))
	st.assume(not("(select " + seen.T + " " + k2.T + ")"))
	st.assume(not(eq(k1.T, k2.T)))
	base := len(st.pc)
	u.commuteAlloc = st.alloc
	u.inlineStack = append(u.inlineStack, fmt.Sprintf("maprange%d", ordinal))
	a := u.runSeq(s, st, m, mt, k1, k2)
	b := u.runSeq(s, st, m, mt, k2, k1)
	u.inlineStack = u.inlineStack[:len(u.inlineStack)-1]
	_ = base
	props := []string{"C09"}
	name := fmt.Sprintf("maprange#%d", ordinal)
	joint := func(x, y *State) *State {
		j := x.clone()
		p := commonPrefix(x.pc, y.pc)
		j.pc = append(j.pc, y.pc[p:]...)
		return j
	}
	desc := "iteration order of " + exprString(s.X) + " is not observable"
	// 1. early exits agree
	emitted := false
	for _, ra := range a.returns {
		for _, rb := range b.returns {
			j := joint(ra.st, rb.st)
			goal := boolLit(ra.kind == rb.kind)
			if ra.kind == rb.kind && len(ra.vals) == len(rb.vals) {
				var eqs []string
				for i := range ra.vals {
					eqs = append(eqs, u.equalValsLoose(ra.vals[i], rb.vals[i]))
				}
				// heap effects made before leaving
				eqs = append(eqs, u.heapEqual(s, ra.st, rb.st))
				goal = and(eqs...)
			}
			u.oblige(j, name+"#exit-symmetric", "commute", goal, props, nil, desc+": two orders leave the loop with the same result", s)
			emitted = true
		}
		if b.cont != nil {
			j := joint(ra.st, b.cont)
			u.oblige(j, name+"#exit-symmetric", "commute", "false", props, nil, desc+": one order leaves the loop early, the other does not", s)
			emitted = true
		}
	}
	if a.cont != nil {
		for _, rb := range b.returns {
			j := joint(a.cont, rb.st)
			u.oblige(j, name+"#exit-symmetric", "commute", "false", props, nil, desc+": one order leaves the loop early, the other does not", s)
			emitted = true
		}
	}
	// 2. both continue: equal state
	if a.cont != nil && b.cont != nil {
		j := joint(a.cont, b.cont)
		vars, _ := u.modified(s.Body)
		kv, vv := u.rangeVar(s.Key, s), u.rangeVar(s.Value, s)
		var eqs []string
		var names []string
		for v := range vars {
			if v == kv || v == vv {
				continue
			}
			// only variables that live outside the body
			if v.Pos() >= s.Body.Pos() && v.Pos() <= s.Body.End() {
				continue
			}
			names = append(names, v.Name())
		}
		sort.Strings(names)
		for v := range vars {
			if v == kv || v == vv || (v.Pos() >= s.Body.Pos() && v.Pos() <= s.Body.End()) {
				continue
			}
			va, oka := a.cont.env[v]
			vb, okb := b.cont.env[v]
			if !oka || !okb {
				continue
			}
			if unordered[v.Name()] && u.reg.isSlice(va.S) {
				// declared order-dependent accumulator: its consumers must sort it (sweep.C09.unordered-consumers)
				continue
			} else {
				eqs = append(eqs, u.equalValsLoose(va, vb))
			}
		}
		eqs = append(eqs, u.heapEqual(s, a.cont, b.cont))
		u.oblige(j, name+"#commute", "commute", and(eqs...), props, nil, desc+": two orders end in the same state (vars "+strings.Join(names, ",")+")", s)
		emitted = true
	}
	if !emitted {
		u.oblige(st, name+"#commute", "commute", "true", props, nil, desc+" (body unreachable)", s)
	}
}

func (u *Unit) equalValsLoose(a, b Val) string {
	if a.S == "nil" && b.S == "nil" {
		return "true"
	}
	if a.S == "nil" {
		a = u.coerceNil(a, b.S)
	}
	if b.S == "nil" {
		b = u.coerceNil(b, a.S)
	}
	if a.S != b.S {
		return "false"
	}
	if u.reg.isSlice(a.S) {
		// slices: same length, nil-ness and elements
		u.reg.counter++
		j := fmt.Sprintf("q_j!%d", u.reg.counter)
		la, lb := u.sliceLen(a), u.sliceLen(b)
		return and(eq(la, lb), eq("(nil_"+a.S+" "+a.T+")", "(nil_"+b.S+" "+b.T+")"),
			fmt.Sprintf("(forall ((%s Int)) (=> (and (<= 0 %s) (< %s %s)) (= (select (arr_%s %s) %s) (select (arr_%s %s) %s))))", j, j, j, la, a.S, a.T, j, b.S, b.T, j))
	}
	return eq(a.T, b.T)
}

// heapEqual: the heap keys the body may write hold equal contents in both states
func (u *Unit) heapEqual(s *ast.RangeStmt, a, b *State) string {
	_, keys := u.modified(s.Body)
	var ks []string
	for k := range keys {
		ks = append(ks, k)
	}
	sort.Strings(ks)
	var eqs []string
	for _, k := range ks {
		srt := u.sortOfHeapKey(k)
		if srt == "" {
			continue
		}
		ta := u.heapTerm(a, k, srt)
		tb := u.heapTerm(b, k, srt)
		if ta == tb {
			continue
		}
		if strings.HasPrefix(srt, "(Array Int ") && u.commuteAlloc != "" {
			// compare the objects that existed at the loop head (objects allocated inside the
			// two runs have incomparable identities)
			u.reg.counter++
			r := fmt.Sprintf("q_r!%d", u.reg.counter)
			eqs = append(eqs, fmt.Sprintf("(forall ((%s Int)) (=> (<= %s %s) (= (select %s %s) (select %s %s))))", r, r, u.commuteAlloc, ta, r, tb, r))
		} else {
			eqs = append(eqs, eq(ta, tb))
		}
	}
	return and(eqs...)
}

// bagOf: the multiset of elements of a slice (ghost), defined by the append facts
func (u *Unit) bagOf(v Val) string {
	elem := u.reg.sliceElem[v.S]
	fn := "bag_" + mangleSort(v.S)
	u.reg.declare(fn, []string{v.S}, "(Array "+elem+" Int)")
	return "(" + fn + " " + v.T + ")"
}
