package main

import (
	"fmt"
	"go/ast"
	"go/token"
	"go/types"
	"sort"
	"strings"

	"golang.org/x/tools/go/packages"
)

// ---------------------------------------------------------------------------
// Obligations

type ObInstance struct {
	PC   []string
	Goal string
	Note string
}

type Obligation struct {
	Name      string
	Kind      string
	Func      string
	Props     []string
	Expect    string // "unsat" (proof obligation) or "sat" (cover / vacuity guard)
	Instances []ObInstance
	Clause    *Clause
	Desc      string
	Pos       string
	// result
	Status   string // discharged, failed, undecided, cover-ok, cover-failed
	Solver   string
	TimeS    float64
	Model    string
	Output   string
	SMTFile  string
	FailInst int
}

// ---------------------------------------------------------------------------
// State

type State struct {
	env   map[*types.Var]Val
	heap  map[string]string
	pc    []string
	alloc string
	epoch string
	// errs: error values obtained from calls on this path (for the "no error is dropped" check)
	errs []errRec
	// reached: call sites executed on this path (Bool terms; inside a loop: during the current iteration)
	reached map[ast.Node]string
	// defers: calls deferred on this path (run, last first, when the function returns)
	defers []*ast.CallExpr
}

type errRec struct {
	term string
	from string
}

func (s *State) clone() *State {
	n := &State{env: make(map[*types.Var]Val, len(s.env)), heap: make(map[string]string, len(s.heap)), alloc: s.alloc, epoch: s.epoch}
	n.defers = append([]*ast.CallExpr(nil), s.defers...)
	if len(s.reached) > 0 {
		n.reached = make(map[ast.Node]string, len(s.reached))
		for k, v := range s.reached {
			n.reached[k] = v
		}
	}
	for k, v := range s.env {
		n.env[k] = v
	}
	for k, v := range s.heap {
		n.heap[k] = v
	}
	n.pc = append([]string(nil), s.pc...)
	n.errs = append([]errRec(nil), s.errs...)
	return n
}

func (s *State) assume(f string) {
	if f == "true" {
		return
	}
	s.pc = append(s.pc, f)
}

const (
	oNormal = iota
	oReturn
	oBreak
	oContinue
)

type Outcome struct {
	kind int
	st   *State
	vals []Val
}

type closure struct {
	lit *ast.FuncLit
}

type retFrame struct {
	results []*types.Var // named results (may be nil entries)
	sig     *types.Signature
}

// Unit: the verification of one function (or lemma).
type Unit struct {
	prog *Program
	fi   *FuncInfo
	pkg  *packages.Package
	info *types.Info
	reg  *Registry
	con  *Contract

	obls     map[string]*Obligation
	oblOrder []string

	siteOrd map[ast.Node]string

	entry     *State
	entryVals map[*types.Var]Val
	heapSort  map[string]string

	inlineDepth  int
	inlineStack  []string
	usedContracts map[string]bool
	usedExt       map[string]bool
	havocCalls    map[string]bool
	unmodelled    map[string]bool
	paths         int
	curFuncKey    string
	specDepth     int
	inSpec        bool
	evalOwner     string // contract key of the clause being evaluated
	oldState      *State
	specBind      map[*types.Var]Val
	oldBind       map[*types.Var]Val
	tier          string
	loopDepth     int
	props         []string
	maxPaths      int
	// current loop ghost bindings
	ghostIdx  []Val
	sortOrd   int
	errDropSites map[*ast.CallExpr]bool
	ghostSeen []Val
	writesTypeInv bool
	noSafety  bool
	frames    []*retFrame
	suppressAssigns bool
	siteDone  map[ast.Node]bool
	entryRecv *Val
	entryParams []Val
	exits     []exitRecord
	globalCache map[*types.Var]Val
	globalDepth int
	tiDone    map[string]bool
	frameCount int
	frameSites map[string]int
	atAsserts map[*ast.CallExpr][]*Clause
	forbidSites map[*ast.CallExpr]*Clause
	// declarations of the contract-less helpers currently executed in place (innermost last)
	spliceDecls []*ast.FuncDecl
	refMapValue map[string]bool
	argCache   map[ast.Expr]Val
	frameAlloc string
	revealing  bool
	readTrace  map[string]bool
	globalMode bool
	globalRefs []string
	inCommute bool
	commuteAlloc string
	noCommute bool
}

type engineError struct{ msg string }

func (u *Unit) fail(format string, args ...interface{}) {
	panic(engineError{fmt.Sprintf(format, args...)})
}

func (u *Unit) pos(n ast.Node) string {
	if n == nil {
		return ""
	}
	p := u.prog.Fset.Position(n.Pos())
	return fmt.Sprintf("%s:%d", strings.TrimPrefix(p.Filename, u.prog.Repo+"/"), p.Line)
}

func (u *Unit) oblige(st *State, name, kind, goal string, props []string, cl *Clause, desc string, n ast.Node) {
	if goal == "true" {
		// still count it: trivially discharged instance
	}
	full := u.curFuncKey + "#" + name
	o := u.obls[full]
	if o == nil {
		o = &Obligation{Name: full, Kind: kind, Func: u.curFuncKey, Props: props, Expect: "unsat", Clause: cl, Desc: desc, Pos: u.pos(n)}
		u.obls[full] = o
		u.oblOrder = append(u.oblOrder, full)
	}
	// a goal whose conjuncts all occur among the path facts is discharged syntactically
	if goal != "true" && syntacticallyImplied(st.pc, goal) {
		goal = "true"
	}
	if len(o.Instances) > 600 {
		u.fail("too many path instances for obligation %s (VC size cap)", full)
	}
	// a conjunction is checked conjunct by conjunct (smaller queries, better diagnostics)
	if strings.HasPrefix(goal, "(and ") && kind != "cover" {
		conj := map[string]bool{}
		flattenAnd(goal, conj)
		pc := append([]string(nil), st.pc...)
		var parts []string
		for c := range conj {
			parts = append(parts, c)
		}
		sort.Strings(parts)
		for _, c := range parts {
			o.Instances = append(o.Instances, ObInstance{PC: pc, Goal: c, Note: short(c)})
		}
		return
	}
	o.Instances = append(o.Instances, ObInstance{PC: append([]string(nil), st.pc...), Goal: goal})
}

func (u *Unit) cover(st *State, name string, desc string) {
	full := u.curFuncKey + "#" + name
	o := u.obls[full]
	if o == nil {
		o = &Obligation{Name: full, Kind: "cover", Func: u.curFuncKey, Expect: "sat", Desc: desc}
		u.obls[full] = o
		u.oblOrder = append(u.oblOrder, full)
	}
	if len(o.Instances) >= 8 {
		return
	}
	o.Instances = append(o.Instances, ObInstance{PC: append([]string(nil), st.pc...), Goal: "false"})
}

// ---------------------------------------------------------------------------
// heap helpers

func (u *Unit) heapTerm(st *State, key, sort string) string {
	if u.readTrace != nil {
		u.readTrace[key] = true
	}
	if t, ok := st.heap[key]; ok {
		return t
	}
	if sort == "" {
		sort = u.sortOfHeapKey(key)
		if sort == "" {
			u.fail("internal: heap key %s has no sort", key)
		}
	}
	name := "H_" + sanitize(key) + "_0"
	u.reg.declare(name, nil, sort)
	u.heapSort[key] = sort
	u.heapWF(key, name, sort, "alloc_0")
	// the entry state shares initial heap names so that old() agrees
	st.heap[key] = name
	if u.entry != nil {
		if _, ok := u.entry.heap[key]; !ok {
			u.entry.heap[key] = name
		}
	}
	if u.oldState != nil {
		if _, ok := u.oldState.heap[key]; !ok {
			u.oldState.heap[key] = name
		}
	}
	return name
}

func (u *Unit) havocHeap(st *State, key string) {
	sort, ok := u.heapSort[key]
	if !ok {
		// never read so far: it will be created fresh on first read, but it must
		// not be identified with the entry heap; give it an explicit fresh name
		sort = u.sortOfHeapKey(key)
		if sort == "" {
			return
		}
		u.heapSort[key] = sort
		// make sure the entry state has the initial name
		init := "H_" + sanitize(key) + "_0"
		u.reg.declare(init, nil, sort)
		u.heapWF(key, init, sort, "alloc_0")
		if u.entry != nil {
			if _, ok := u.entry.heap[key]; !ok {
				u.entry.heap[key] = init
			}
		}
	}
	oldTerm, hadOld := st.heap[key]
	st.heap[key] = u.reg.fresh("H_"+sanitize(key), sort)
	if isSymbol(st.alloc) {
		u.heapWF(key, st.heap[key], sort, st.alloc)
	}
	// immutable fields of objects that already exist keep their values
	if u.prog.CS.Immutable[key] {
		if !hadOld {
			oldTerm = "H_" + sanitize(key) + "_0"
		}
		al := st.alloc
		if u.frameAlloc != "" {
			al = u.frameAlloc
		}
		u.reg.counter++
		r := fmt.Sprintf("q_r!%d", u.reg.counter)
		st.assume(fmt.Sprintf("(forall ((%s Int)) (! (=> (<= %s %s) (= (select %s %s) (select %s %s))) :pattern ((select %s %s))))", r, r, al, st.heap[key], r, oldTerm, r, st.heap[key], r))
	}
}

func isSymbol(t string) bool { return t != "" && !strings.ContainsAny(t, "( ") }

// heapWF: every reference stored in a heap array is allocated (0 <= ref <= alloc).
func (u *Unit) heapWF(key, name, sort, alloc string) {
	if !strings.HasPrefix(key, "F:") && !strings.HasPrefix(key, "MV:") {
		return
	}
	if strings.HasPrefix(key, "MV:") {
		kv := strings.SplitN(key[3:], "|", 2)
		if kv[1] != "Int" || !u.refMapValue[key] {
			return
		}
		u.reg.axiom(fmt.Sprintf("(forall ((r Int) (k %s)) (! (and (<= 0 (select (select %s r) k)) (<= (select (select %s r) k) %s)) :pattern ((select (select %s r) k))))", kv[0], name, name, alloc, name))
		return
	}
	ft := u.prog.fieldType(key)
	if ft == nil {
		return
	}
	elem := sort[len("(Array Int ") : len(sort)-1]
	if u.reg.isSlice(elem) {
		u.reg.axiom(fmt.Sprintf("(forall ((r Int)) (! (>= (len_%s (select %s r)) 0) :pattern ((select %s r))))", elem, name, name))
		return
	}
	if elem == "Int" && u.isRefType(ft) {
		u.reg.axiom(fmt.Sprintf("(forall ((r Int)) (! (and (<= 0 (select %s r)) (<= (select %s r) %s)) :pattern ((select %s r))))", name, name, alloc, name))
		if mt, ok := types.Unalias(ft).Underlying().(*types.Map); ok && u.reg.mapTypeID(mt) != 0 {
			u.reg.declare("mapty", []string{"Int"}, "Int")
			u.reg.axiom(fmt.Sprintf("(forall ((r Int)) (! (=> (not (= (select %s r) 0)) (= (mapty (select %s r)) %d)) :pattern ((select %s r))))", name, name, u.reg.mapTypeID(mt), name))
		}
		return
	}
	// struct-valued field: first-level reference members
	if si := u.reg.structInfoOf(elem); si != nil {
		var conj []string
		for _, f := range si.fields {
			acc := fmt.Sprintf("(%s_%s (select %s r))", elem, sanitize(f.name), name)
			if f.sort == "Int" && u.isRefType(f.typ) {
				conj = append(conj, "(<= 0 "+acc+")", "(<= "+acc+" "+alloc+")")
				if mt, ok := types.Unalias(f.typ).Underlying().(*types.Map); ok && u.reg.mapTypeID(mt) != 0 {
					u.reg.declare("mapty", []string{"Int"}, "Int")
					conj = append(conj, fmt.Sprintf("(=> (not (= %s 0)) (= (mapty %s) %d))", acc, acc, u.reg.mapTypeID(mt)))
				}
			}
			if u.reg.isSlice(f.sort) {
				conj = append(conj, "(>= (len_"+f.sort+" "+acc+") 0)")
			}
		}
		if len(conj) > 0 {
			u.reg.axiom(fmt.Sprintf("(forall ((r Int)) (! %s :pattern ((select %s r))))", and(conj...), name))
		}
	}
}

var fieldTypeCache map[string]types.Type

func (p *Program) fieldType(key string) types.Type {
	if fieldTypeCache == nil {
		fieldTypeCache = map[string]types.Type{}
		for _, pkg := range p.Pkgs {
			sc := pkg.Types.Scope()
			for _, n := range sc.Names() {
				tn, ok := sc.Lookup(n).(*types.TypeName)
				if !ok {
					continue
				}
				st, ok := tn.Type().Underlying().(*types.Struct)
				if !ok {
					continue
				}
				for i := 0; i < st.NumFields(); i++ {
					fieldTypeCache["F:"+typeKey(tn.Type())+"."+st.Field(i).Name()] = st.Field(i).Type()
				}
			}
		}
	}
	return fieldTypeCache[key]
}

// heap keys:  F:<struct key>.<field>   MD:<K sort>   MV:<K sort>|<V sort>   C:<sort>   G:<pkg.var>
func (u *Unit) sortOfHeapKey(key string) string {
	s := u.sortOfHeapKey0(key)
	if s != "" {
		u.reg.ensureSort(s, modsetReg)
	}
	return s
}

func (u *Unit) sortOfHeapKey0(key string) string {
	switch {
	case strings.HasPrefix(key, "MD:"):
		return "(Array Int (Array " + key[3:] + " Bool))"
	case strings.HasPrefix(key, "MV:"):
		kv := strings.SplitN(key[3:], "|", 2)
		return "(Array Int (Array " + kv[0] + " " + kv[1] + "))"
	case strings.HasPrefix(key, "C:"):
		return "(Array Int " + key[2:] + ")"
	case strings.HasPrefix(key, "F:"):
		if s, ok := u.prog.fieldSorts(u.reg)[key]; ok {
			return s
		}
	case strings.HasPrefix(key, "G:"):
		if s, ok := u.prog.globalSorts(u.reg)[key]; ok {
			return s
		}
	}
	return ""
}

var fieldSortCache map[*Registry]map[string]string

func (p *Program) fieldSorts(reg *Registry) map[string]string {
	if fieldSortCache == nil {
		fieldSortCache = map[*Registry]map[string]string{}
	}
	if m, ok := fieldSortCache[reg]; ok {
		return m
	}
	m := map[string]string{}
	for _, pkg := range p.Pkgs {
		sc := pkg.Types.Scope()
		for _, n := range sc.Names() {
			tn, ok := sc.Lookup(n).(*types.TypeName)
			if !ok {
				continue
			}
			st, ok := tn.Type().Underlying().(*types.Struct)
			if !ok {
				continue
			}
			for i := 0; i < st.NumFields(); i++ {
				f := st.Field(i)
				m["F:"+typeKey(tn.Type())+"."+f.Name()] = "(Array Int " + reg.sortOf(f.Type()) + ")"
			}
		}
	}
	fieldSortCache[reg] = m
	return m
}

func (p *Program) globalSorts(reg *Registry) map[string]string {
	m := map[string]string{}
	for _, pkg := range p.Pkgs {
		sc := pkg.Types.Scope()
		for _, n := range sc.Names() {
			if v, ok := sc.Lookup(n).(*types.Var); ok {
				m["G:"+shortPkg(pkg.PkgPath)+"."+n] = reg.sortOf(v.Type())
			}
		}
	}
	return m
}

func fieldHeapKey(owner types.Type, field string) string {
	return "F:" + typeKey(owner) + "." + field
}

// newRef allocates a fresh, non-nil reference distinct from every reference that exists so far.
func (u *Unit) newRef(st *State, hint string) string {
	if u.globalMode {
		// an object created by a package-level initialiser: it exists before the function is entered
		r := u.reg.fresh("gref_"+hint, "Int")
		u.reg.axiom("(> " + r + " 0)")
		u.reg.axiom("(<= " + r + " alloc_0)")
		for _, o := range u.globalRefs {
			u.reg.axiom(not(eq(r, o)))
		}
		u.globalRefs = append(u.globalRefs, r)
		return r
	}
	r := u.reg.fresh("ref_"+hint, "Int")
	st.assume("(> " + r + " " + st.alloc + ")")
	st.assume("(> " + r + " 0)")
	st.alloc = r
	return r
}

func (u *Unit) isRefType(t types.Type) bool {
	if t == nil {
		return false
	}
	switch types.Unalias(t).Underlying().(type) {
	case *types.Pointer, *types.Map, *types.Interface, *types.Signature, *types.Chan:
		return true
	}
	if _, ok := types.Unalias(t).(*types.TypeParam); ok {
		return u.reg.sortOf(t) == "Int"
	}
	return false
}

// allocFact records that a reference read from the state is already allocated.
func (u *Unit) allocFact(st *State, v Val) {
	if v.S == "Int" && u.isRefType(v.GT) && !isSimpleLiteral(v.T) && !u.inSpec {
		st.assume("(<= " + v.T + " " + st.alloc + ")")
		st.assume("(>= " + v.T + " 0)")
		u.mapTypeFact(st, v.T, v.GT)
	}
}

// mapTypeFact: maps with the same key sort share one heap array; a map object has exactly one Go
// type, so references of different map types never alias.
func (u *Unit) mapTypeFact(st *State, ref string, t types.Type) {
	if t == nil {
		return
	}
	mt, ok := types.Unalias(t).Underlying().(*types.Map)
	if !ok {
		return
	}
	id := u.reg.mapTypeID(mt)
	if id == 0 {
		return
	}
	u.reg.declare("mapty", []string{"Int"}, "Int")
	st.assume(implies(not(eq(ref, "0")), eq("(mapty "+ref+")", fmt.Sprint(id))))
}

func isSimpleLiteral(t string) bool {
	if t == "" {
		return true
	}
	c := t[0]
	return c >= '0' && c <= '9'
}

// ---------------------------------------------------------------------------
// merging

func commonPrefix(a, b []string) int {
	n := 0
	for n < len(a) && n < len(b) && a[n] == b[n] {
		n++
	}
	return n
}

// merge joins two states reached by different branches into one.
func (u *Unit) merge(a, b *State) *State {
	p := commonPrefix(a.pc, b.pc)
	ga := and(a.pc[p:]...)
	gb := and(b.pc[p:]...)
	if ga == "false" {
		return b
	}
	if gb == "false" {
		return a
	}
	m := u.reg.fresh("br", "Bool")
	out := &State{env: map[*types.Var]Val{}, heap: map[string]string{}}
	out.pc = append([]string(nil), a.pc[:p]...)
	out.pc = append(out.pc, or(and(m, ga), and(not(m), gb)))
	for k, va := range a.env {
		vb, ok := b.env[k]
		if !ok {
			continue
		}
		if va.T == vb.T {
			out.env[k] = va
			continue
		}
		nv := va
		if va.S != vb.S {
			// nil literal vs typed value
			if va.S == "nil" {
				va = u.coerceNil(va, vb.S)
			} else if vb.S == "nil" {
				vb = u.coerceNil(vb, va.S)
			}
			nv = va
		}
		nv.T = ite(m, va.T, vb.T)
		if va.Dyn != vb.Dyn {
			nv.Dyn = nil
		}
		if va.Closure != vb.Closure {
			nv.Closure = nil
		}
		if va.FuncObj != vb.FuncObj {
			// different statically known functions on the two branches: the merged value is an unknown function
			nv.FuncObj = nil
			nv.Recv = nil
		}
		out.env[k] = nv
	}
	keys := map[string]bool{}
	for k := range a.heap {
		keys[k] = true
	}
	for k := range b.heap {
		keys[k] = true
	}
	for k := range keys {
		ta := u.heapTerm(a, k, u.heapSort[k])
		tb := u.heapTerm(b, k, u.heapSort[k])
		out.heap[k] = ite(m, ta, tb)
	}
	if len(a.defers) != len(b.defers) {
		u.fail("paths with different sets of deferred calls are joined (outside the verified subset)")
	}
	for i := range a.defers {
		if a.defers[i] != b.defers[i] {
			u.fail("paths with different sets of deferred calls are joined (outside the verified subset)")
		}
	}
	out.defers = append([]*ast.CallExpr(nil), a.defers...)
	if len(a.reached)+len(b.reached) > 0 {
		out.reached = map[ast.Node]string{}
		for k, va := range a.reached {
			vb, ok := b.reached[k]
			if !ok {
				vb = "false"
			}
			out.reached[k] = ite(m, va, vb)
		}
		for k, vb := range b.reached {
			if _, ok := a.reached[k]; !ok {
				out.reached[k] = ite(m, "false", vb)
			}
		}
	}
	out.alloc = ite(m, a.alloc, b.alloc)
	if a.alloc != b.alloc {
		// keep alloc a simple term
		al := u.reg.fresh("alloc", "Int")
		out.assume(eq(al, ite(m, a.alloc, b.alloc)))
		out.alloc = al
	}
	// error values seen on only one side are nil on the other
	inB := map[string]bool{}
	for _, e := range b.errs {
		inB[e.term] = true
	}
	inA := map[string]bool{}
	for _, e := range a.errs {
		inA[e.term] = true
		if inB[e.term] {
			out.errs = append(out.errs, e)
		} else {
			out.errs = append(out.errs, errRec{term: ite(m, e.term, "0"), from: e.from})
		}
	}
	for _, e := range b.errs {
		if !inA[e.term] {
			out.errs = append(out.errs, errRec{term: ite(m, "0", e.term), from: e.from})
		}
	}
	out.epoch = a.epoch
	if a.epoch != b.epoch {
		ep := u.reg.fresh("epoch", "Int")
		out.assume(eq(ep, ite(m, a.epoch, b.epoch)))
		out.epoch = ep
	}
	return out
}

func (u *Unit) mergeAll(sts []*State) *State {
	if len(sts) == 0 {
		return nil
	}
	cur := sts[0]
	for _, s := range sts[1:] {
		cur = u.merge(cur, s)
	}
	return cur
}

func (u *Unit) coerceNil(v Val, sort string) Val {
	if v.S != "nil" {
		return v
	}
	v.S = sort
	v.T = u.reg.zero(sort)
	return v
}

// mergeOutcomes merges all outcomes of the given kind into at most one.
func (u *Unit) mergeNormal(outs []Outcome, kinds ...int) (*State, []Outcome) {
	isKind := func(k int) bool {
		for _, x := range kinds {
			if x == k {
				return true
			}
		}
		return false
	}
	var sts []*State
	var rest []Outcome
	for _, o := range outs {
		if isKind(o.kind) {
			sts = append(sts, o.st)
		} else {
			rest = append(rest, o)
		}
	}
	return u.mergeAll(sts), rest
}

// ---------------------------------------------------------------------------
// site ordinals (stable obligation names, no line numbers)

func (u *Unit) computeSiteOrdinals(body ast.Node, prefix string) {
	counts := map[string]int{}
	next := func(kind string) string {
		counts[kind]++
		return fmt.Sprintf("%s%s#%d", prefix, kind, counts[kind])
	}
	ast.Inspect(body, func(n ast.Node) bool {
		switch n := n.(type) {
		case *ast.IndexExpr:
			if tv, ok := u.info.Types[n.X]; ok && tv.Type != nil {
				switch tv.Type.Underlying().(type) {
				case *types.Slice, *types.Array, *types.Basic, *types.Pointer:
					u.siteOrd[n] = next("index")
				case *types.Map:
					u.siteOrd[n] = next("mapindex")
				}
			}
		case *ast.SliceExpr:
			u.siteOrd[n] = next("slice")
		case *ast.SelectorExpr:
			if sel, ok := u.info.Selections[n]; ok {
				_ = sel
				u.siteOrd[n] = next("nil")
			}
		case *ast.StarExpr:
			if tv, ok := u.info.Types[n]; ok && !tv.IsType() {
				u.siteOrd[n] = next("nil")
			}
		case *ast.TypeAssertExpr:
			if n.Type != nil {
				u.siteOrd[n] = next("assert-type")
			}
		case *ast.CallExpr:
			name := callName(n)
			if name == "panic" {
				u.siteOrd[n] = next("panic")
			} else {
				u.siteOrd[n] = next("call#" + name)
			}
		case *ast.ForStmt, *ast.RangeStmt:
			u.siteOrd[n] = next("loop")
		case *ast.ReturnStmt:
			u.siteOrd[n] = next("return")
		case *ast.BinaryExpr:
			if n.Op == token.QUO || n.Op == token.REM {
				u.siteOrd[n] = next("div")
			}
		}
		return true
	})
}

func (u *Unit) site(n ast.Node, fallback string) string {
	if s, ok := u.siteOrd[n]; ok {
		if len(u.inlineStack) > 0 {
			return "in#" + strings.Join(u.inlineStack, "/") + "#" + s
		}
		return s
	}
	return fallback
}

func sortedKeys(m map[string]bool) []string {
	var out []string
	for k := range m {
		out = append(out, k)
	}
	sort.Strings(out)
	return out
}

func flattenAnd(t string, out map[string]bool) {
	if strings.HasPrefix(t, "(and ") && strings.HasSuffix(t, ")") {
		for _, p := range splitSexprs(t[5 : len(t)-1]) {
			flattenAnd(p, out)
		}
		return
	}
	out[t] = true
}

func splitSexprs(s string) []string {
	var parts []string
	d := 0
	start := -1
	instr := false
	for i := 0; i < len(s); i++ {
		c := s[i]
		if instr {
			if c == '"' {
				instr = false
			}
			continue
		}
		switch {
		case c == '"':
			instr = true
			if start < 0 {
				start = i
			}
		case c == '(':
			if start < 0 {
				start = i
			}
			d++
		case c == ')':
			d--
		case c == ' ' || c == '\n':
			if d == 0 && start >= 0 {
				parts = append(parts, s[start:i])
				start = -1
			}
		default:
			if start < 0 {
				start = i
			}
		}
	}
	if start >= 0 {
		parts = append(parts, s[start:])
	}
	return parts
}

func syntacticallyImplied(pc []string, goal string) bool {
	want := map[string]bool{}
	flattenAnd(goal, want)
	if len(want) == 0 {
		return false
	}
	have := map[string]bool{}
	for _, f := range pc {
		flattenAnd(f, have)
	}
	for w := range want {
		if !have[w] {
			return false
		}
	}
	return true
}

// markReached records that a call site is executed on this path.
func (st *State) markReached(call ast.Node) {
	if st.reached == nil {
		st.reached = map[ast.Node]string{}
	}
	st.reached[call] = "true"
}

// resetReachedIn: at a loop head the call sites inside the body have not been executed in the coming
// iteration (body state); after the loop nothing is known about them (exit state gets fresh values).
func (u *Unit) resetReachedIn(body ast.Node, bodySt, exitSt *State) {
	ast.Inspect(body, func(n ast.Node) bool {
		var c ast.Node
		switch n.(type) {
		case *ast.CallExpr, *ast.ForStmt, *ast.RangeStmt:
			c = n
		}
		if c != nil {
			if bodySt != nil {
				if bodySt.reached == nil {
					bodySt.reached = map[ast.Node]string{}
				}
				bodySt.reached[c] = "false"
			}
			if exitSt != nil {
				if exitSt.reached == nil {
					exitSt.reached = map[ast.Node]string{}
				}
				exitSt.reached[c] = u.reg.fresh("reached", "Bool")
			}
		}
		return true
	})
}
