package main

import (
	"go/types"
	"flag"
	"fmt"
	"os"
	"strings"
)

func main() {
	repo := flag.String("repo", "/repo", "repository root")
	mirror := flag.String("mirror", "/verif/contracts", "contract mirror directory")
	fn := flag.String("func", "", "verify a single function key (debug)")
	property := flag.String("property", "", "property id")
	tier := flag.String("tier", "quick", "quick|thorough")
	out := flag.String("out", "/verif/out", "output directory")
	dump := flag.Bool("dump-synth", false, "write synthetic spec files to out/synth")
	verbose := flag.Bool("v", false, "verbose")
	replay := flag.String("replay", "", "replay file")
	evdir := flag.String("evidence-dir", "", "write evidence files to this directory instead of /verif/evidence (seed runs)")
	all := flag.Bool("all", false, "check every claimed property")
	writeBase := flag.Bool("write-baseline", false, "with -all: write baseline_obligations.json when every claimed property is green")
	vacuity := flag.Bool("vacuity", false, "diagnostic: with -property, list discharged obligations all of whose path instances have unsatisfiable premises")
	headers := flag.Bool("print-headers", false, "print, for every contract, its header with the receiver and parameter names of the code (tools/add_param_names.py)")
	sweepAll := flag.Bool("sweep-safety", false, "run the zero-annotation safety sweep over every function (diagnostic)")
	flag.Parse()
	if t := os.Getenv("VERIF_TIER"); t != "" && !isFlagSet("tier") {
		*tier = t
	}
	vacuityProbe = *vacuity
	cfg := &RunCfg{Repo: *repo, Mirror: *mirror, Tier: *tier, Out: *out, DumpSynth: *dump, Verbose: *verbose, EvidenceDir: *evdir}
	switch {
	case *headers:
		prog := loadOrDie(cfg)
		for k, con := range prog.CS.Funcs {
			fi := prog.Funcs[k]
			var obj *types.Func
			if fi != nil {
				obj = fi.Obj
			} else {
				obj = prog.lookupInterfaceMethod(con)
			}
			if obj == nil {
				continue
			}
			sig := obj.Type().(*types.Signature)
			var ps []string
			for i := 0; i < sig.Params().Len(); i++ {
				n := sig.Params().At(i).Name()
				if (n == "" || n == "_") && i < len(con.ParamNames) {
					n = con.ParamNames[i]
				}
				if n == "" {
					n = "_"
				}
				ps = append(ps, n)
			}
			recv := ""
			if r := sig.Recv(); r != nil {
				recv = r.Name()
				if recv == "" || recv == "_" {
					recv = "self"
				}
				if _, isIface := r.Type().Underlying().(*types.Interface); isIface {
					recv = "this"
				}
				recv += "; "
			}
			fmt.Printf("%s\t%s\t%s(%s%s)\n", con.File, con.FuncName, con.FuncName, recv, strings.Join(ps, ", "))
		}
		os.Exit(0)
	case *replay != "":
		os.Exit(runReplay(cfg, *replay))
	case *sweepAll:
		os.Exit(runSafetySweep(cfg))
	case *fn != "":
		os.Exit(runFuncs(cfg, strings.Split(*fn, ",")))
	case *property != "":
		os.Exit(runProperty(cfg, *property))
	case *all:
		os.Exit(runAll(cfg, *writeBase))
	}
	fmt.Fprintln(os.Stderr, "usage: vcheck -property Cxx [-tier quick|thorough] | -func key | -all")
	os.Exit(2)
}

func isFlagSet(name string) bool {
	set := false
	flag.Visit(func(f *flag.Flag) {
		if f.Name == name {
			set = true
		}
	})
	return set
}
