package main

// Loops are cut at their invariants.

import (
	"fmt"
	"go/ast"
	"go/token"
	"go/types"
)

// modified collects the locals assigned and the heap keys possibly written in the given nodes.
func (u *Unit) modified(nodes ...ast.Node) (map[*types.Var]bool, map[string]bool) {
	vars := map[*types.Var]bool{}
	keys := map[string]bool{}
	for _, n := range nodes {
		if n == nil {
			continue
		}
		collectWrites(u.prog, u.info, n, vars, keys, u.reg)
	}
	return vars, keys
}

func (u *Unit) loopSpec(n ast.Stmt) (*LoopSpec, int) {
	ord := u.loopOrdinal(n)
	if u.con == nil || ord == 0 {
		return nil, ord
	}
	return u.con.Loops[ord], ord
}

func (u *Unit) loopOrdinal(n ast.Stmt) int {
	if u.fi == nil {
		return 0
	}
	for i, l := range u.fi.loops {
		if l == n {
			return i + 1
		}
	}
	return 0
}

func (u *Unit) havocVars(st *State, vars map[*types.Var]bool) {
	for v := range vars {
		old, ok := st.env[v]
		if !ok {
			continue
		}
		if old.Closure != nil {
			continue
		}
		srt := u.reg.sortOf(v.Type())
		nv := Val{T: u.reg.fresh("hv_"+v.Name(), srt), S: srt, GT: v.Type()}
		st.env[v] = nv
		u.allocFact(st, nv)
		u.sliceFacts(st, nv)
	}
}

func (u *Unit) sliceFacts(st *State, v Val) {
	if u.reg.isSlice(v.S) {
		st.assume("(>= (len_" + v.S + " " + v.T + ") 0)")
		st.assume(implies("(nil_"+v.S+" "+v.T+")", eq("(len_"+v.S+" "+v.T+")", "0")))
	}
}

func (u *Unit) checkInvariants(st *State, ls *LoopSpec, n int, phase string, bind map[string]Val, node ast.Node) {
	if phase == "keep" && u.con != nil && u.con.Propagates && len(u.inlineStack) == 0 && !u.inCommute {
		// an iteration only completes normally when none of the errors it obtained is non-nil
		var conj []string
		for _, e := range st.errs {
			conj = append(conj, eq(e.term, "0"))
		}
		if len(conj) > 0 {
			props := u.con.PropProps
			if len(props) == 0 {
				props = u.con.Props
			}
			u.oblige(st, fmt.Sprintf("loop#%d#err-propagation", n), "propagate", and(conj...), props, nil, "a loop iteration that obtained a non-nil error does not continue normally", node)
		}
	}
	if ls == nil {
		return
	}
	if phase == "keep" && len(ls.Invariants) > 0 && !u.inCommute && len(u.inlineStack) == len(u.spliceDecls) {
		// vacuity guard: the end of the body of a loop that carries an invariant is reachable (otherwise the
		// "keep" obligations hold for no reason)
		u.cover(st, fmt.Sprintf("cover#loop#%d", n), fmt.Sprintf("the end of the body of loop %d is reachable", n))
	}
	for k, inv := range ls.Invariants {
		g := u.evalClause(inv, st, u.entry, u.localBindings(inv, st, bind), nil)
		u.oblige(st, fmt.Sprintf("loop#%d#inv#%d#%s", n, k+1, phase), "inv-"+phase, g, u.clauseProps(inv), inv, "loop invariant ("+phase+"): "+inv.Text, node)
	}
}

func (u *Unit) assumeInvariants(st *State, ls *LoopSpec, bind map[string]Val) {
	if ls == nil {
		return
	}
	for _, inv := range ls.Invariants {
		st.assume(u.evalClause(inv, st, u.entry, u.localBindings(inv, st, bind), nil))
	}
}

func (u *Unit) execFor(s *ast.ForStmt, st *State) []Outcome {
	if !u.inSpec {
		st.markReached(s)
	}
	if s.Init != nil {
		outs := u.execStmt(s.Init, st)
		if len(outs) == 0 {
			return nil
		}
		st = outs[0].st
	}
	ls, n := u.loopSpec(s)
	// automatic invariant for the classic counted loop "i := c; i < e; i++" (i not assigned in the body)
	autoVar, autoLo := u.countedLoop(s, st)
	// ghost iteration counter `idx` (number of completed iterations), as for range loops: 0 at entry, arbitrary
	// >= 0 at the loop head, idx+1 after the body
	bind := map[string]Val{"idx": {T: "0", S: "Int", GT: types.Typ[types.Int]}}
	u.checkInvariants(st, ls, n, "init", bind, s)
	gidx := Val{T: u.reg.fresh("idx", "Int"), S: "Int", GT: types.Typ[types.Int]}
	st.assume("(<= 0 " + gidx.T + ")")
	bind = map[string]Val{"idx": gidx}
	vars, keys := u.modified(s.Body, s.Post, s.Cond)
	u.havocVars(st, vars)
	for k := range keys {
		u.havocHeap(st, k)
	}
	if len(keys) > 0 {
		u.bumpEpoch(st)
	}
	if autoVar != nil {
		st.assume("(>= " + st.env[autoVar].T + " " + autoLo + ")")
		// the counter of a counted loop and the ghost iteration counter move together (the body does not assign the
		// counter, `continue` runs the post statement): a clause may use either, so rewriting a range loop as an
		// index loop (or back) keeps `idx`-based invariants provable
		st.assume(eq(gidx.T, "(- "+st.env[autoVar].T+" "+autoLo+")"))
	}
	// at an arbitrary loop head the sites inside the body may or may not have been executed in the previous iteration:
	// their reached-flags are unknown (the invariant speaks about them)
	u.resetReachedIn(s.Body, nil, st)
	u.assumeInvariants(st, ls, bind)
	var variant0 string
	cond := "true"
	if s.Cond != nil {
		cond = u.evalCond(s.Cond, st)
	}
	var outs []Outcome
	// body path
	bst := st.clone()
	u.resetReachedIn(s.Body, bst, st)
	bst.assume(cond)
	if ls != nil && ls.Decreases != nil {
		variant0 = u.evalClauseInt(ls.Decreases, bst, u.localBindings(ls.Decreases, bst, bind))
	}
	res := u.execBlock(s.Body.List, bst)
	var cont []*State
	var after []*State
	for _, o := range res {
		switch o.kind {
		case oNormal, oContinue:
			cont = append(cont, o.st)
		case oBreak:
			u.checkExhaustive(o.st, ls, n, s)
			after = append(after, o.st)
		default:
			outs = append(outs, o)
		}
	}
	if cs := u.mergeAll(cont); cs != nil {
		if s.Post != nil {
			po := u.execStmt(s.Post, cs)
			if len(po) > 0 {
				cs = po[0].st
			}
		}
		u.checkInvariants(cs, ls, n, "keep", map[string]Val{"idx": {T: "(+ " + gidx.T + " 1)", S: "Int", GT: types.Typ[types.Int]}}, s)
		if variant0 != "" {
			v1 := u.evalClauseInt(ls.Decreases, cs, u.localBindings(ls.Decreases, cs, bind))
			u.oblige(cs, fmt.Sprintf("loop#%d#variant", n), "variant", and("(>= "+variant0+" 0)", "(< "+v1+" "+variant0+")"), u.clauseProps(ls.Decreases), ls.Decreases, "loop variant decreases and is bounded: "+ls.Decreases.Text, s)
		}
	}
	// exit path
	if cond != "true" {
		st.assume(not(cond))
		after = append(after, st)
	}
	if as := u.mergeAll(after); as != nil {
		outs = append(outs, Outcome{kind: oNormal, st: as})
	}
	return outs
}

// countedLoop recognises `for i := lo; i < hi; i++` where the body does not assign i.
func (u *Unit) countedLoop(s *ast.ForStmt, st *State) (*types.Var, string) {
	as, ok := s.Init.(*ast.AssignStmt)
	if !ok || as.Tok != token.DEFINE || len(as.Lhs) != 1 {
		return nil, ""
	}
	id, ok := as.Lhs[0].(*ast.Ident)
	if !ok {
		return nil, ""
	}
	v, _ := u.info.Defs[id].(*types.Var)
	if v == nil {
		return nil, ""
	}
	inc, ok := s.Post.(*ast.IncDecStmt)
	if !ok || inc.Tok != token.INC {
		return nil, ""
	}
	if pid, ok := inc.X.(*ast.Ident); !ok || u.info.Uses[pid] != v {
		return nil, ""
	}
	vars, _ := u.modified(s.Body)
	if vars[v] {
		return nil, ""
	}
	cur, ok := st.env[v]
	if !ok || cur.S != "Int" {
		return nil, ""
	}
	return v, cur.T
}

func (u *Unit) bumpEpoch(st *State) {
	st.epoch = u.reg.fresh("epoch", "Int")
}

func (u *Unit) execRange(s *ast.RangeStmt, st *State) []Outcome {
	if !u.inSpec {
		st.markReached(s)
	}
	xt := typeOf(u.info, s.X).Underlying()
	switch t := xt.(type) {
	case *types.Slice, *types.Array:
		return u.execRangeSlice(s, st)
	case *types.Map:
		return u.execRangeMap(s, st, t)
	case *types.Pointer:
		if _, ok := t.Elem().Underlying().(*types.Array); ok {
			return u.execRangeSlice(s, st)
		}
	case *types.Basic:
		if t.Info()&types.IsString != 0 {
			return u.execRangeOpaque(s, st)
		}
	}
	u.fail("unsupported range over %s at %s", xt, u.pos(s))
	return nil
}

func (u *Unit) rangeVar(e ast.Expr, s *ast.RangeStmt) *types.Var {
	if e == nil {
		return nil
	}
	id, ok := e.(*ast.Ident)
	if !ok || id.Name == "_" {
		return nil
	}
	if s.Tok == token.DEFINE {
		v, _ := u.info.Defs[id].(*types.Var)
		return v
	}
	v, _ := u.info.Uses[id].(*types.Var)
	return v
}

func (u *Unit) execRangeSlice(s *ast.RangeStmt, st *State) []Outcome {
	xs := u.evalExpr(s.X, st)
	ls, n := u.loopSpec(s)
	elemSort := u.reg.sliceElem[xs.S]
	var elemT types.Type
	switch t := typeOf(u.info, s.X).Underlying().(type) {
	case *types.Slice:
		elemT = t.Elem()
	case *types.Array:
		elemT = t.Elem()
	}
	length := u.sliceLen(xs)
	// unrolling over a statically known list (generator.BuildSteps)
	if ls != nil && ls.Unroll && len(xs.Elems) > 0 {
		return u.unrollRange(s, st, xs)
	}
	if len(xs.Elems) > 0 && (ls == nil || len(ls.Invariants) == 0) && len(xs.Elems) <= 16 && u.isGlobalRef(s.X) {
		return u.unrollRange(s, st, xs)
	}
	kv, vv := u.rangeVar(s.Key, s), u.rangeVar(s.Value, s)
	idx0 := Val{T: "0", S: "Int", GT: types.Typ[types.Int]}
	bind := map[string]Val{"idx": idx0}
	u.checkInvariants(st, ls, n, "init", bind, s)
	vars, keys := u.modified(s.Body)
	if kv != nil {
		delete(vars, kv)
	}
	if vv != nil {
		delete(vars, vv)
	}
	u.havocVars(st, vars)
	for k := range keys {
		u.havocHeap(st, k)
	}
	if len(keys) > 0 {
		u.bumpEpoch(st)
	}
	idx := Val{T: u.reg.fresh("idx", "Int"), S: "Int", GT: types.Typ[types.Int]}
	bind = map[string]Val{"idx": idx}
	st.assume("(<= 0 " + idx.T + ")")
	st.assume("(<= " + idx.T + " " + length + ")")
	// at an arbitrary loop head the sites inside the body may or may not have been executed in the previous iteration:
	// their reached-flags are unknown (the invariant speaks about them)
	u.resetReachedIn(s.Body, nil, st)
	u.assumeInvariants(st, ls, bind)
	var outs []Outcome
	// body
	bst := st.clone()
	u.resetReachedIn(s.Body, bst, st)
	bst.assume("(< " + idx.T + " " + length + ")")
	if kv != nil {
		bst.env[kv] = idx
	}
	if vv != nil {
		ev := Val{T: "(select (arr_" + xs.S + " " + xs.T + ") " + idx.T + ")", S: elemSort, GT: elemT}
		bst.env[vv] = ev
		u.allocFact(bst, ev)
	}
	var variant0 string
	if ls != nil && ls.Decreases != nil {
		variant0 = u.evalClauseInt(ls.Decreases, bst, u.localBindings(ls.Decreases, bst, bind))
	}
	u.ghostIdx = append(u.ghostIdx, idx)
	res := u.execBlock(s.Body.List, bst)
	u.ghostIdx = u.ghostIdx[:len(u.ghostIdx)-1]
	var cont, after []*State
	for _, o := range res {
		switch o.kind {
		case oNormal, oContinue:
			cont = append(cont, o.st)
		case oBreak:
			u.checkExhaustive(o.st, ls, n, s)
			after = append(after, o.st)
		default:
			outs = append(outs, o)
		}
	}
	if cs := u.mergeAll(cont); cs != nil {
		next := Val{T: "(+ " + idx.T + " 1)", S: "Int", GT: types.Typ[types.Int]}
		nb := map[string]Val{"idx": next}
		// the loop variables keep their last values for the invariant check
		u.checkInvariants(cs, ls, n, "keep", nb, s)
		if variant0 != "" {
			v1 := u.evalClauseInt(ls.Decreases, cs, u.localBindings(ls.Decreases, cs, nb))
			u.oblige(cs, fmt.Sprintf("loop#%d#variant", n), "variant", and("(>= "+variant0+" 0)", "(< "+v1+" "+variant0+")"), u.clauseProps(ls.Decreases), ls.Decreases, "loop variant", s)
		}
	}
	// exit: all elements processed
	st.assume(eq(idx.T, length))
	after = append(after, st)
	if as := u.mergeAll(after); as != nil {
		outs = append(outs, Outcome{kind: oNormal, st: as})
	}
	return outs
}

func (u *Unit) isGlobalRef(e ast.Expr) bool {
	switch e := ast.Unparen(e).(type) {
	case *ast.Ident:
		v, ok := u.info.Uses[e].(*types.Var)
		return ok && u.isGlobal(v)
	case *ast.SelectorExpr:
		v, ok := u.info.Uses[e.Sel].(*types.Var)
		return ok && u.isGlobal(v)
	}
	return false
}

func (u *Unit) unrollRange(s *ast.RangeStmt, st *State, xs Val) []Outcome {
	kv, vv := u.rangeVar(s.Key, s), u.rangeVar(s.Value, s)
	var outs []Outcome
	cur := st
	for i, el := range xs.Elems {
		if cur == nil {
			break
		}
		if kv != nil {
			cur.env[kv] = Val{T: intLit(int64(i)), S: "Int", GT: types.Typ[types.Int]}
		}
		if vv != nil {
			cur.env[vv] = el
		}
		u.inlineStack = append(u.inlineStack, fmt.Sprintf("iter%d", i))
		res := u.execBlock(s.Body.List, cur)
		u.inlineStack = u.inlineStack[:len(u.inlineStack)-1]
		var cont []*State
		for _, o := range res {
			switch o.kind {
			case oNormal, oContinue:
				cont = append(cont, o.st)
			case oBreak:
				outs = append(outs, Outcome{kind: oNormal, st: o.st})
			default:
				outs = append(outs, o)
			}
		}
		cur = u.mergeAll(cont)
	}
	if cur != nil {
		outs = append(outs, Outcome{kind: oNormal, st: cur})
	}
	return u.joinNormals(outs)
}

func (u *Unit) execRangeMap(s *ast.RangeStmt, st *State, mt *types.Map) []Outcome {
	m := u.evalExpr(s.X, st)
	ls, n := u.loopSpec(s)
	ks := u.reg.sortOf(mt.Key())
	setSort := "(Array " + ks + " Bool)"
	kv, vv := u.rangeVar(s.Key, s), u.rangeVar(s.Value, s)
	dom0 := u.mapDom(st, m, mt)
	empty := Val{T: "((as const " + setSort + ") false)", S: setSort}
	bind := map[string]Val{"seen": empty}
	u.checkInvariants(st, ls, n, "init", bind, s)
	vars, keys := u.modified(s.Body)
	if kv != nil {
		delete(vars, kv)
	}
	if vv != nil {
		delete(vars, vv)
	}
	u.havocVars(st, vars)
	for k := range keys {
		u.havocHeap(st, k)
	}
	if len(keys) > 0 {
		u.bumpEpoch(st)
	}
	seen := Val{T: u.reg.fresh("seen", setSort), S: setSort}
	bind = map[string]Val{"seen": seen}
	// seen is a subset of the domain at loop entry
	sub := u.reg.fresh("k", ks)
	_ = sub
	// at an arbitrary loop head the sites inside the body may or may not have been executed in the previous iteration:
	// their reached-flags are unknown (the invariant speaks about them)
	u.resetReachedIn(s.Body, nil, st)
	u.assumeInvariants(st, ls, bind)
	if n > 0 {
		u.commuteCheck(s, st, m, mt, dom0, seen, n)
	}
	var outs []Outcome
	bst := st.clone()
	u.resetReachedIn(s.Body, bst, st)
	key := Val{T: u.reg.fresh("key", ks), S: ks, GT: mt.Key()}
	bst.assume("(select " + dom0 + " " + key.T + ")")
	bst.assume(not("(select " + seen.T + " " + key.T + ")"))
	if kv != nil {
		bst.env[kv] = key
	}
	if vv != nil {
		vs := u.reg.sortOf(mt.Elem())
		mvKey := "MV:" + ks + "|" + vs
		h := u.heapTerm(bst, mvKey, u.sortOfHeapKey(mvKey))
		ev := Val{T: "(select (select " + h + " " + m.T + ") " + key.T + ")", S: vs, GT: mt.Elem()}
		bst.env[vv] = ev
		u.allocFact(bst, ev)
	}
	u.ghostSeen = append(u.ghostSeen, seen)
	res := u.execBlock(s.Body.List, bst)
	u.ghostSeen = u.ghostSeen[:len(u.ghostSeen)-1]
	var cont, after []*State
	for _, o := range res {
		switch o.kind {
		case oNormal, oContinue:
			cont = append(cont, o.st)
		case oBreak:
			u.checkExhaustive(o.st, ls, n, s)
			after = append(after, o.st)
		default:
			outs = append(outs, o)
		}
	}
	if cs := u.mergeAll(cont); cs != nil {
		next := Val{T: "(store " + seen.T + " " + key.T + " true)", S: setSort}
		u.checkInvariants(cs, ls, n, "keep", map[string]Val{"seen": next}, s)
	}
	// exit: every key of the (entry) domain has been seen
	st.assume(eq(seen.T, dom0))
	after = append(after, st)
	if as := u.mergeAll(after); as != nil {
		outs = append(outs, Outcome{kind: oNormal, st: as})
	}
	return outs
}

// execRangeOpaque: range over a string (rune iteration) - havoc the loop effects.
func (u *Unit) execRangeOpaque(s *ast.RangeStmt, st *State) []Outcome {
	u.unmodelled["range over string at "+u.pos(s)] = true
	vars, keys := u.modified(s.Body)
	u.havocVars(st, vars)
	for k := range keys {
		u.havocHeap(st, k)
	}
	return []Outcome{{kind: oNormal, st: st}}
}

// checkExhaustive: `loop N exhaustive` -- the loop is not left by break
func (u *Unit) checkExhaustive(st *State, ls *LoopSpec, n int, node ast.Node) {
	if ls == nil || ls.Exhaustive == nil || u.inCommute {
		return
	}
	u.oblige(st, fmt.Sprintf("loop#%d#exhaustive", n), "assert", "false", u.clauseProps(ls.Exhaustive), ls.Exhaustive, "the loop is not left by break (every element is processed): "+ls.Exhaustive.Text, node)
}
