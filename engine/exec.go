package main

// Symbolic execution of statements over the typed AST.

import (
	"fmt"
	"go/ast"
	"go/token"
	"go/types"
	"strings"
)

func (u *Unit) execBlock(stmts []ast.Stmt, st *State) []Outcome {
	cur := st
	var outs []Outcome
	for _, s := range stmts {
		if cur == nil {
			break
		}
		res := u.execStmt(s, cur)
		var normals []*State
		for _, o := range res {
			if o.kind == oNormal {
				normals = append(normals, o.st)
			} else {
				outs = append(outs, o)
			}
		}
		cur = u.mergeAll(normals)
	}
	if cur != nil {
		outs = append(outs, Outcome{kind: oNormal, st: cur})
	}
	return outs
}

func (u *Unit) execStmt(s ast.Stmt, st *State) []Outcome {
	switch s := s.(type) {
	case *ast.BlockStmt:
		return u.execBlock(s.List, st)
	case *ast.ExprStmt:
		if call, ok := s.X.(*ast.CallExpr); ok {
			if id, ok := call.Fun.(*ast.Ident); ok && id.Name == "panic" && u.isBuiltin(id) {
				u.doPanic(call, st)
				return nil
			}
			u.evalCall(call, st)
			if st.dead() {
				return nil
			}
			return []Outcome{{kind: oNormal, st: st}}
		}
		u.evalExpr(s.X, st)
		return []Outcome{{kind: oNormal, st: st}}
	case *ast.AssignStmt:
		u.execAssign(s, st)
		if st.dead() {
			return nil
		}
		return []Outcome{{kind: oNormal, st: st}}
	case *ast.IncDecStmt:
		v := u.evalExpr(s.X, st)
		op := "+"
		if s.Tok == token.DEC {
			op = "-"
		}
		u.assignTo(s.X, Val{T: "(" + op + " " + v.T + " 1)", S: "Int", GT: v.GT}, st)
		return []Outcome{{kind: oNormal, st: st}}
	case *ast.DeclStmt:
		gd, ok := s.Decl.(*ast.GenDecl)
		if !ok || gd.Tok != token.VAR {
			return []Outcome{{kind: oNormal, st: st}}
		}
		for _, sp := range gd.Specs {
			vs := sp.(*ast.ValueSpec)
			if len(vs.Values) == 1 && len(vs.Names) > 1 {
				vals := u.evalMulti(vs.Values[0], st)
				for i, n := range vs.Names {
					u.define(n, vals[i], st)
				}
				continue
			}
			for i, n := range vs.Names {
				obj, _ := u.info.Defs[n].(*types.Var)
				if obj == nil {
					continue
				}
				if i < len(vs.Values) {
					v := u.evalExpr(vs.Values[i], st)
					st.env[obj] = u.convert(v, obj.Type(), st)
				} else {
					srt := u.reg.sortOf(obj.Type())
					st.env[obj] = Val{T: u.reg.zero(srt), S: srt, GT: obj.Type()}
				}
			}
		}
		return []Outcome{{kind: oNormal, st: st}}
	case *ast.ReturnStmt:
		return u.execReturn(s, st)
	case *ast.IfStmt:
		return u.execIf(s, st)
	case *ast.ForStmt:
		return u.execFor(s, st)
	case *ast.RangeStmt:
		return u.execRange(s, st)
	case *ast.SwitchStmt:
		return u.execSwitch(s, st)
	case *ast.TypeSwitchStmt:
		return u.execTypeSwitch(s, st)
	case *ast.BranchStmt:
		switch s.Tok {
		case token.BREAK:
			if s.Label != nil {
				u.fail("labelled break is outside the verified subset (%s)", u.pos(s))
			}
			return []Outcome{{kind: oBreak, st: st}}
		case token.CONTINUE:
			if s.Label != nil {
				u.fail("labelled continue is outside the verified subset (%s)", u.pos(s))
			}
			return []Outcome{{kind: oContinue, st: st}}
		}
		u.fail("unsupported branch statement %s at %s", s.Tok, u.pos(s))
	case *ast.EmptyStmt:
		return []Outcome{{kind: oNormal, st: st}}
	case *ast.LabeledStmt:
		return u.execStmt(s.Stmt, st)
	case *ast.DeferStmt:
		// a deferred call runs when the function returns. Supported: a direct call (no function literal) at the
		// top level of the function whose receiver/arguments are not assigned afterwards (they are evaluated
		// when the call runs). Its results -- an error included -- are discarded by Go.
		if _, isLit := ast.Unparen(s.Call.Fun).(*ast.FuncLit); isLit || len(u.inlineStack) > 0 || u.fi == nil {
			u.fail("deferred function literal / defer in inlined code is outside the verified subset at %s", u.pos(s))
		}
		used := map[types.Object]bool{}
		ast.Inspect(s.Call, func(n ast.Node) bool {
			if id, ok := n.(*ast.Ident); ok {
				if o := u.info.Uses[id]; o != nil {
					if _, isVar := o.(*types.Var); isVar {
						used[o] = true
					}
				}
			}
			return true
		})
		ast.Inspect(u.fi.Decl.Body, func(n ast.Node) bool {
			if as, ok := n.(*ast.AssignStmt); ok && as.Pos() > s.End() {
				for _, l := range as.Lhs {
					if id, ok := l.(*ast.Ident); ok && used[u.info.Uses[id]] {
						u.fail("a variable used by a deferred call is assigned after the defer statement (outside the verified subset) at %s", u.pos(as))
					}
				}
			}
			return true
		})
		st.defers = append(st.defers, s.Call)
		return []Outcome{{kind: oNormal, st: st}}
	case *ast.GoStmt, *ast.SelectStmt, *ast.SendStmt:
		u.fail("statement outside the verified subset at %s", u.pos(s))
	}
	u.fail("unsupported statement %T at %s", s, u.pos(s))
	return nil
}

func (s *State) dead() bool {
	return len(s.pc) > 0 && s.pc[len(s.pc)-1] == "false"
}

func (u *Unit) isBuiltin(id *ast.Ident) bool {
	_, ok := u.info.Uses[id].(*types.Builtin)
	return ok
}

func (u *Unit) doPanic(call *ast.CallExpr, st *State) {
	// an explicit panic must be unreachable unless the contract allows it
	goal := "false"
	if u.con != nil && u.con.PanicsIf != nil && len(u.inlineStack) == 0 {
		c := u.evalClause(u.con.PanicsIf, u.entry, u.entry, nil, u.entryBindings(nil))
		goal = c
	}
	if !u.noSafety {
		u.oblige(st, u.site(call, "panic"), "panic", goal, []string{"C13"}, nil, "explicit panic must be unreachable: "+exprString(call), call)
	}
	st.assume("false")
}

// ---------------------------------------------------------------------------
// assignment

func (u *Unit) define(id *ast.Ident, v Val, st *State) {
	if id.Name == "_" {
		return
	}
	obj, _ := u.info.Defs[id].(*types.Var)
	if obj == nil {
		obj, _ = u.info.Uses[id].(*types.Var)
	}
	if obj == nil {
		return
	}
	st.env[obj] = u.convert(v, obj.Type(), st)
}

func (u *Unit) execAssign(s *ast.AssignStmt, st *State) {
	// op-assign
	if s.Tok != token.ASSIGN && s.Tok != token.DEFINE {
		l := u.evalExpr(s.Lhs[0], st)
		r := u.evalExpr(s.Rhs[0], st)
		var op token.Token
		switch s.Tok {
		case token.ADD_ASSIGN:
			op = token.ADD
		case token.SUB_ASSIGN:
			op = token.SUB
		case token.MUL_ASSIGN:
			op = token.MUL
		default:
			u.fail("unsupported assignment operator %s at %s", s.Tok, u.pos(s))
		}
		u.assignTo(s.Lhs[0], u.binary(op, l, r, st, s), st)
		return
	}
	var vals []Val
	if len(s.Lhs) > 1 && len(s.Rhs) == 1 {
		vals = u.evalMulti(s.Rhs[0], st)
		if len(vals) != len(s.Lhs) {
			u.fail("assignment count mismatch at %s", u.pos(s))
		}
	} else {
		for _, r := range s.Rhs {
			vals = append(vals, u.evalExpr(r, st))
		}
	}
	if st.dead() {
		return
	}
	for i, l := range s.Lhs {
		if id, ok := l.(*ast.Ident); ok {
			if id.Name == "_" {
				continue
			}
			if s.Tok == token.DEFINE {
				u.define(id, vals[i], st)
				continue
			}
		}
		u.assignTo(l, vals[i], st)
	}
}

// evalMulti evaluates an expression that yields several values (call, comma-ok forms).
func (u *Unit) evalMulti(e ast.Expr, st *State) []Val {
	switch e := ast.Unparen(e).(type) {
	case *ast.CallExpr:
		return u.evalCall(e, st)
	case *ast.IndexExpr:
		// v, ok := m[k]
		m := u.evalExpr(e.X, st)
		mt, ok := typeOf(u.info, e.X).Underlying().(*types.Map)
		if !ok {
			u.fail("comma-ok index on non-map at %s", u.pos(e))
		}
		k := u.convert(u.evalExpr(e.Index, st), mt.Key(), st)
		v, okv := u.mapLookup(st, m, k, mt)
		return []Val{v, okv}
	case *ast.TypeAssertExpr:
		x := u.evalExpr(e.X, st)
		t := typeOf(u.info, e.Type)
		ok := u.dynTest(st, x, t)
		return []Val{u.unbox(st, x, t), {T: ok, S: "Bool", GT: types.Typ[types.Bool]}}
	}
	u.fail("unsupported multi-value expression %T at %s", e, u.pos(e))
	return nil
}

func typeOf(info *types.Info, e ast.Expr) types.Type {
	if tv, ok := info.Types[e]; ok && tv.Type != nil {
		return tv.Type
	}
	if id, ok := e.(*ast.Ident); ok {
		if o := info.ObjectOf(id); o != nil {
			return o.Type()
		}
	}
	return types.Typ[types.Invalid]
}

// assignTo stores a value into an l-value expression.
func (u *Unit) assignTo(lhs ast.Expr, v Val, st *State) {
	lhs = ast.Unparen(lhs)
	switch l := lhs.(type) {
	case *ast.Ident:
		if l.Name == "_" {
			return
		}
		obj, _ := u.info.ObjectOf(l).(*types.Var)
		if obj == nil {
			u.fail("assignment to unknown identifier %s at %s", l.Name, u.pos(l))
		}
		v = u.convert(v, obj.Type(), st)
		if u.isGlobal(obj) {
			key := "G:" + shortPkg(obj.Pkg().Path()) + "." + obj.Name()
			u.heapSort[key] = u.reg.sortOf(obj.Type())
			st.heap[key] = v.T
			return
		}
		st.env[obj] = v
	case *ast.SelectorExpr:
		sel, ok := u.info.Selections[l]
		if !ok {
			u.fail("assignment to qualified identifier at %s", u.pos(l))
		}
		u.assignField(l, sel, v, st)
	case *ast.IndexExpr:
		xt := typeOf(u.info, l.X)
		switch t := xt.Underlying().(type) {
		case *types.Map:
			m := u.evalExpr(l.X, st)
			k := u.convert(u.evalExpr(l.Index, st), t.Key(), st)
			v = u.convert(v, t.Elem(), st)
			if !u.noSafety {
				u.oblige(st, u.site(l, "nilmap"), "nilmap", not(eq(m.T, "0")), []string{"C13"}, nil, "store into nil map: "+exprString(l), l)
			}
			// execution continues only when the store did not panic
			st.assume(not(eq(m.T, "0")))
			u.mapStore(st, m, k, v, t)
		case *types.Slice, *types.Array:
			a := u.evalExpr(l.X, st)
			i := u.evalExpr(l.Index, st)
			var elem types.Type
			if s, ok := t.(*types.Slice); ok {
				elem = s.Elem()
			} else {
				elem = t.(*types.Array).Elem()
			}
			v = u.convert(v, elem, st)
			u.boundsCheck(st, l, i.T, u.sliceLen(a))
			na := Val{T: fmt.Sprintf("(mk_%s (store (arr_%s %s) %s %s) (len_%s %s) false)", a.S, a.S, a.T, i.T, v.T, a.S, a.T), S: a.S, GT: a.GT}
			u.assignTo(l.X, na, st)
		default:
			u.fail("unsupported index assignment at %s", u.pos(l))
		}
	case *ast.StarExpr:
		p := u.evalExpr(l.X, st)
		pt, _ := typeOf(u.info, l.X).Underlying().(*types.Pointer)
		if pt == nil {
			u.fail("assignment through non-pointer at %s", u.pos(l))
		}
		u.nilCheck(st, l, p)
		u.storeDeref(st, p, pt.Elem(), u.convert(v, pt.Elem(), st))
	default:
		u.fail("unsupported l-value %T at %s", lhs, u.pos(lhs))
	}
}

func (u *Unit) isGlobal(v *types.Var) bool {
	return v.Pkg() != nil && v.Parent() == v.Pkg().Scope()
}

// assignField handles x.f = v including promoted fields and value-struct nesting.
func (u *Unit) assignField(l *ast.SelectorExpr, sel *types.Selection, v Val, st *State) {
	// Walk the index path; find the last pointer dereference.
	base := u.evalExpr(l.X, st)
	cur := base
	curT := typeOf(u.info, l.X)
	type step struct {
		owner types.Type // struct type (named) owning the field
		idx   int
		val   Val // value of container before the step (struct value or pointer)
		isPtr bool
	}
	var steps []step
	path := sel.Index()
	for _, idx := range path {
		isPtr := false
		owner := curT
		if p, ok := types.Unalias(curT).Underlying().(*types.Pointer); ok {
			isPtr = true
			owner = p.Elem()
		}
		stt, ok := owner.Underlying().(*types.Struct)
		if !ok {
			u.fail("field path through non-struct at %s", u.pos(l))
		}
		steps = append(steps, step{owner: owner, idx: idx, val: cur, isPtr: isPtr})
		f := stt.Field(idx)
		if isPtr {
			u.nilCheck(st, l, cur)
			cur = u.loadField(st, cur, owner, f)
		} else {
			cur = u.structGet(cur, f, idx)
		}
		curT = f.Type()
	}
	// write back from the innermost step
	last := steps[len(steps)-1]
	lastStruct := last.owner.Underlying().(*types.Struct)
	nv := u.convert(v, lastStruct.Field(last.idx).Type(), st)
	for i := len(steps) - 1; i >= 0; i-- {
		s := steps[i]
		stt := s.owner.Underlying().(*types.Struct)
		f := stt.Field(s.idx)
		if s.isPtr {
			u.storeField(st, s.val, s.owner, f, nv, l)
			return
		}
		// struct value: functional update
		nv = u.structSet(s.val, s.idx, nv)
		if i == 0 {
			// the base expression is itself an l-value holding a struct value
			u.assignTo(l.X, nv, st)
			return
		}
	}
}

func (u *Unit) structGet(sv Val, f *types.Var, idx int) Val {
	si := u.reg.structInfoOf(sv.S)
	if si == nil {
		u.fail("struct selector on non-struct sort %s", sv.S)
	}
	return Val{T: fmt.Sprintf("(%s_%s %s)", sv.S, sanitize(si.fields[idx].name), sv.T), S: si.fields[idx].sort, GT: f.Type()}
}

func (u *Unit) structSet(sv Val, idx int, nv Val) Val {
	si := u.reg.structInfoOf(sv.S)
	var args []string
	for i, f := range si.fields {
		if i == idx {
			args = append(args, nv.T)
		} else {
			args = append(args, fmt.Sprintf("(%s_%s %s)", sv.S, sanitize(f.name), sv.T))
		}
	}
	return Val{T: "(mk_" + sv.S + " " + strings.Join(args, " ") + ")", S: sv.S, GT: sv.GT}
}

func (u *Unit) loadField(st *State, ref Val, owner types.Type, f *types.Var) Val {
	fs := u.reg.sortOf(f.Type())
	key := fieldHeapKey(owner, f.Name())
	h := u.heapTerm(st, key, "(Array Int "+fs+")")
	v := Val{T: "(select " + h + " " + ref.T + ")", S: fs, GT: f.Type()}
	return v
}

func (u *Unit) storeField(st *State, ref Val, owner types.Type, f *types.Var, v Val, n ast.Node) {
	fs := u.reg.sortOf(f.Type())
	key := fieldHeapKey(owner, f.Name())
	h := u.heapTerm(st, key, "(Array Int "+fs+")")
	if u.globalMode {
		// initial value of a package-level object: a fact about the initial heap, kept only for
		// fields that no function of the module ever writes
		if !u.prog.everWritten(key) {
			u.reg.axiom(eq("(select "+h+" "+ref.T+")", v.T))
		} else {
			u.reg.note("initial value of package-level object field " + key + " not assumed (the field is written somewhere in the module)")
		}
		return
	}
	u.checkAssigns(st, key, ref, n)
	u.checkImmutableWrite(st, key, ref, n)
	st.heap[key] = "(store " + h + " " + ref.T + " " + v.T + ")"
	u.bumpEpoch(st)
}

// checkImmutableWrite: a field declared immutable may only be written on an object that was
// allocated by the current function, or on a parameter object the contract lists in `assigns`
// (constructor helpers; their call sites are checked in turn).
func (u *Unit) checkImmutableWrite(st *State, key string, ref Val, n ast.Node) {
	if u.suppressAssigns || u.inSpec || !u.prog.CS.Immutable[key] || u.entry == nil {
		return
	}
	alts := []string{"(> " + ref.T + " " + u.entry.alloc + ")"}
	if u.con != nil && u.con.HasAssigns && len(u.inlineStack) == 0 {
		alts = append(alts, u.frameAllows(st, u.con, u.entryBindings(nil), u.entry, key, ref.T))
	}
	u.oblige(st, fmt.Sprintf("immutable#%d", u.frameSite(n, "imm:"+key)), "frame", or(alts...), []string{"C03"}, nil, "write to immutable field "+key+" only on an object under construction", n)
}

// storeDeref: *p = v
func (u *Unit) storeDeref(st *State, p Val, elem types.Type, v Val) {
	if stt, ok := elem.Underlying().(*types.Struct); ok && u.isNamedStruct(elem) {
		for i := 0; i < stt.NumFields(); i++ {
			f := stt.Field(i)
			u.storeField(st, p, elem, f, u.structGet(v, f, i), nil)
		}
		return
	}
	srt := u.reg.sortOf(elem)
	key := "C:" + srt
	h := u.heapTerm(st, key, "(Array Int "+srt+")")
	if u.globalMode {
		u.reg.axiom(eq("(select "+h+" "+p.T+")", v.T))
		return
	}
	st.heap[key] = "(store " + h + " " + p.T + " " + v.T + ")"
}

func (u *Unit) loadDeref(st *State, p Val, elem types.Type) Val {
	if stt, ok := elem.Underlying().(*types.Struct); ok && u.isNamedStruct(elem) {
		srt := u.reg.sortOf(elem)
		var args []string
		for i := 0; i < stt.NumFields(); i++ {
			args = append(args, u.loadField(st, p, elem, stt.Field(i)).T)
		}
		if len(args) == 0 {
			return Val{T: "mk_" + srt, S: srt, GT: elem}
		}
		return Val{T: "(mk_" + srt + " " + strings.Join(args, " ") + ")", S: srt, GT: elem}
	}
	srt := u.reg.sortOf(elem)
	key := "C:" + srt
	h := u.heapTerm(st, key, "(Array Int "+srt+")")
	return Val{T: "(select " + h + " " + p.T + ")", S: srt, GT: elem}
}

func (u *Unit) isNamedStruct(t types.Type) bool {
	_, ok := types.Unalias(t).(*types.Named)
	return ok
}

// ---------------------------------------------------------------------------
// safety checks

func (u *Unit) nilCheck(st *State, n ast.Node, ref Val) {
	if u.noSafety || u.inSpec {
		return
	}
	if strings.HasPrefix(ref.T, "ref_") {
		return // freshly allocated
	}
	u.oblige(st, u.site(n, "nil"), "nil", not(eq(ref.T, "0")), []string{"C13"}, nil, "nil dereference: "+exprString(n), n)
	st.assume(not(eq(ref.T, "0")))
}

func (u *Unit) boundsCheck(st *State, n ast.Node, idx, length string) {
	if u.noSafety || u.inSpec {
		return
	}
	goal := and("(<= 0 "+idx+")", "(< "+idx+" "+length+")")
	u.oblige(st, u.site(n, "index"), "index", goal, []string{"C13"}, nil, "index out of range: "+exprString(n), n)
	st.assume(goal)
}

// ---------------------------------------------------------------------------
// return

func (u *Unit) execReturn(s *ast.ReturnStmt, st *State) []Outcome {
	var vals []Val
	fr := u.curFrame()
	if len(s.Results) == 0 {
		for _, r := range fr.results {
			if r != nil {
				vals = append(vals, st.env[r])
			}
		}
	} else if len(s.Results) == 1 && fr.sig.Results().Len() > 1 {
		vals = u.evalMulti(s.Results[0], st)
	} else {
		for _, r := range s.Results {
			vals = append(vals, u.evalExpr(r, st))
		}
	}
	if st.dead() {
		return nil
	}
	for i := range vals {
		vals[i] = u.convert(vals[i], fr.sig.Results().At(i).Type(), st)
	}
	u.runDefers(st)
	return []Outcome{{kind: oReturn, st: st, vals: vals}}
}

// runDefers executes the calls deferred on this path, last first (their results are discarded; an error
// among them is an error that is dropped)
func (u *Unit) runDefers(st *State) {
	if len(u.inlineStack) > 0 {
		return
	}
	ds := st.defers
	st.defers = nil
	for i := len(ds) - 1; i >= 0; i-- {
		u.evalCall(ds[i], st)
	}
}

func (u *Unit) curFrame() *retFrame { return u.frames[len(u.frames)-1] }

// ---------------------------------------------------------------------------
// if / switch

func (u *Unit) execIf(s *ast.IfStmt, st *State) []Outcome {
	if s.Init != nil {
		outs := u.execStmt(s.Init, st)
		if len(outs) != 1 || outs[0].kind != oNormal {
			if len(outs) == 0 {
				return nil
			}
			u.fail("unexpected control flow in if-init at %s", u.pos(s))
		}
		st = outs[0].st
	}
	cond := u.evalCond(s.Cond, st)
	if st.dead() {
		return nil
	}
	var outs []Outcome
	tst := st.clone()
	tst.assume(cond)
	if cond != "false" {
		outs = append(outs, u.execBlock(s.Body.List, tst)...)
	}
	est := st
	est.assume(not(cond))
	if cond != "true" {
		if s.Else != nil {
			outs = append(outs, u.execStmt(s.Else, est)...)
		} else {
			outs = append(outs, Outcome{kind: oNormal, st: est})
		}
	}
	return u.joinNormals(outs)
}

func (u *Unit) joinNormals(outs []Outcome) []Outcome {
	m, rest := u.mergeNormal(outs, oNormal)
	if m != nil {
		rest = append(rest, Outcome{kind: oNormal, st: m})
	}
	return rest
}

// evalCond evaluates a boolean expression; side-effecting right operands of
// && and || are evaluated only under the left operand (fork and merge).
func (u *Unit) evalCond(e ast.Expr, st *State) string {
	v := u.evalExpr(e, st)
	if v.S != "Bool" {
		u.fail("condition is not boolean at %s (sort %s)", u.pos(e), v.S)
	}
	return v.T
}

func (u *Unit) execSwitch(s *ast.SwitchStmt, st *State) []Outcome {
	if s.Init != nil {
		outs := u.execStmt(s.Init, st)
		if len(outs) == 0 {
			return nil
		}
		st = outs[0].st
	}
	var tag *Val
	if s.Tag != nil {
		v := u.evalExpr(s.Tag, st)
		tag = &v
	}
	var outs []Outcome
	var defaultClause *ast.CaseClause
	defaultIdx := -1
	negs := []string{}
	clauses := s.Body.List
	// fallthrough support: states falling through into the next clause
	var fall *State
	pending := st
	for ci, c := range clauses {
		cc := c.(*ast.CaseClause)
		if cc.List == nil {
			defaultClause = cc
			defaultIdx = ci
			if fall != nil {
				// fallthrough into default: handled below by executing default with fall
			}
			continue
		}
		var conds []string
		for _, e := range cc.List {
			if tag != nil {
				cv := u.evalExpr(e, pending)
				conds = append(conds, u.equalVals(*tag, cv, pending))
			} else {
				conds = append(conds, u.evalCond(e, pending))
			}
		}
		cond := or(conds...)
		var entry []*State
		if cond != "false" {
			cs := pending.clone()
			cs.assume(cond)
			entry = append(entry, cs)
		}
		if fall != nil {
			entry = append(entry, fall)
			fall = nil
		}
		pending.assume(not(cond))
		negs = append(negs, not(cond))
		if len(entry) == 0 {
			continue
		}
		es := u.mergeAll(entry)
		body, ft := splitFallthrough(cc.Body)
		res := u.execBlock(body, es)
		for _, o := range res {
			switch o.kind {
			case oBreak:
				outs = append(outs, Outcome{kind: oNormal, st: o.st})
			case oNormal:
				if ft {
					fall = o.st
				} else {
					outs = append(outs, o)
				}
			default:
				outs = append(outs, o)
			}
		}
	}
	_ = defaultIdx
	// default (or implicit fallthrough past all cases)
	if defaultClause != nil {
		entry := []*State{pending}
		if fall != nil {
			entry = append(entry, fall)
		}
		es := u.mergeAll(entry)
		res := u.execBlock(defaultClause.Body, es)
		for _, o := range res {
			if o.kind == oBreak {
				outs = append(outs, Outcome{kind: oNormal, st: o.st})
			} else {
				outs = append(outs, o)
			}
		}
	} else {
		outs = append(outs, Outcome{kind: oNormal, st: pending})
		if fall != nil {
			outs = append(outs, Outcome{kind: oNormal, st: fall})
		}
	}
	return u.joinNormals(outs)
}

func splitFallthrough(body []ast.Stmt) ([]ast.Stmt, bool) {
	if n := len(body); n > 0 {
		if b, ok := body[n-1].(*ast.BranchStmt); ok && b.Tok == token.FALLTHROUGH {
			return body[:n-1], true
		}
	}
	return body, false
}

func (u *Unit) execTypeSwitch(s *ast.TypeSwitchStmt, st *State) []Outcome {
	if s.Init != nil {
		outs := u.execStmt(s.Init, st)
		if len(outs) == 0 {
			return nil
		}
		st = outs[0].st
	}
	var x ast.Expr
	var bind *ast.Ident
	switch a := s.Assign.(type) {
	case *ast.AssignStmt:
		bind = a.Lhs[0].(*ast.Ident)
		x = a.Rhs[0].(*ast.TypeAssertExpr).X
	case *ast.ExprStmt:
		x = a.X.(*ast.TypeAssertExpr).X
	}
	xv := u.evalExpr(x, st)
	var outs []Outcome
	pending := st
	var defaultClause *ast.CaseClause
	for _, c := range s.Body.List {
		cc := c.(*ast.CaseClause)
		if cc.List == nil {
			defaultClause = cc
			continue
		}
		var conds []string
		var single types.Type
		for _, e := range cc.List {
			if id, ok := e.(*ast.Ident); ok && id.Name == "nil" {
				conds = append(conds, eq(xv.T, "0"))
				continue
			}
			t := typeOf(u.info, e)
			conds = append(conds, u.dynTest(pending, xv, t))
			single = t
		}
		cond := or(conds...)
		cs := pending.clone()
		cs.assume(cond)
		pending.assume(not(cond))
		if cond == "false" {
			continue
		}
		if bind != nil {
			if obj, ok := u.info.Implicits[cc].(*types.Var); ok {
				if len(cc.List) == 1 && single != nil {
					cs.env[obj] = u.unbox(cs, xv, single)
				} else {
					cs.env[obj] = xv
				}
			}
		}
		for _, o := range u.execBlock(cc.Body, cs) {
			if o.kind == oBreak {
				o.kind = oNormal
			}
			outs = append(outs, o)
		}
	}
	if defaultClause != nil {
		if bind != nil {
			if obj, ok := u.info.Implicits[defaultClause].(*types.Var); ok {
				pending.env[obj] = xv
			}
		}
		for _, o := range u.execBlock(defaultClause.Body, pending) {
			if o.kind == oBreak {
				o.kind = oNormal
			}
			outs = append(outs, o)
		}
	} else {
		outs = append(outs, Outcome{kind: oNormal, st: pending})
	}
	return u.joinNormals(outs)
}

func exprString(n ast.Node) string {
	s := types.ExprString(asExpr(n))
	if len(s) > 80 {
		s = s[:77] + "..."
	}
	return s
}

func asExpr(n ast.Node) ast.Expr {
	if e, ok := n.(ast.Expr); ok {
		return e
	}
	return &ast.Ident{Name: fmt.Sprintf("%T", n)}
}
