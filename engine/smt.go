package main

// SMT-LIB term construction, sort registry and declarations.

import (
	"fmt"
	"go/ast"
	"go/types"
	"sort"
	"strings"
)

// Val is a symbolic value: an SMT term, its SMT sort and (when known) its Go type.
type Val struct {
	T  string     // SMT-LIB term
	S  string     // SMT sort
	GT types.Type // Go type, may be nil for spec-only values (sets ...)
	// Dyn is the statically known dynamic type of an interface value (used to
	// devirtualise calls on the elements of generator.BuildSteps).
	Dyn types.Type
	// Closure: a function literal bound to a local (inlined at the call).
	Closure *closure
	// Elems: the statically known elements of a slice literal.
	Elems []Val
	// FuncObj/Recv: a statically known function or method value.
	FuncObj *types.Func
	Recv    *Val
	// Addr: the l-value whose address this reference was taken from (value-result passing).
	Addr ast.Expr
}

func app(f string, args ...string) string {
	if len(args) == 0 {
		return f
	}
	return "(" + f + " " + strings.Join(args, " ") + ")"
}

func and(xs ...string) string {
	var ys []string
	for _, x := range xs {
		if x == "true" {
			continue
		}
		if x == "false" {
			return "false"
		}
		ys = append(ys, x)
	}
	switch len(ys) {
	case 0:
		return "true"
	case 1:
		return ys[0]
	}
	return "(and " + strings.Join(ys, " ") + ")"
}

func or(xs ...string) string {
	var ys []string
	for _, x := range xs {
		if x == "false" {
			continue
		}
		if x == "true" {
			return "true"
		}
		ys = append(ys, x)
	}
	switch len(ys) {
	case 0:
		return "false"
	case 1:
		return ys[0]
	}
	return "(or " + strings.Join(ys, " ") + ")"
}

func not(x string) string {
	switch x {
	case "true":
		return "false"
	case "false":
		return "true"
	}
	if strings.HasPrefix(x, "(not ") && strings.HasSuffix(x, ")") && balanced(x[5:len(x)-1]) {
		return x[5 : len(x)-1]
	}
	return "(not " + x + ")"
}

func balanced(s string) bool {
	d := 0
	instr := false
	for i := 0; i < len(s); i++ {
		c := s[i]
		if instr {
			if c == '"' {
				instr = false
			}
			continue
		}
		switch c {
		case '"':
			instr = true
		case '(':
			d++
		case ')':
			d--
			if d < 0 {
				return false
			}
		}
	}
	return d == 0
}

func implies(a, b string) string {
	if a == "true" {
		return b
	}
	if a == "false" || b == "true" {
		return "true"
	}
	return "(=> " + a + " " + b + ")"
}

func eq(a, b string) string {
	if a == b {
		return "true"
	}
	return "(= " + a + " " + b + ")"
}

func ite(c, a, b string) string {
	if c == "true" {
		return a
	}
	if c == "false" {
		return b
	}
	if a == b {
		return a
	}
	return "(ite " + c + " " + a + " " + b + ")"
}

func intLit(n int64) string {
	if n < 0 {
		return fmt.Sprintf("(- %d)", -n)
	}
	return fmt.Sprintf("%d", n)
}

func strLit(s string) string {
	var b strings.Builder
	b.WriteByte('"')
	for _, r := range s {
		switch {
		case r == '"':
			b.WriteString(`""`)
		case r == '\\':
			b.WriteString(`\u{5c}`)
		case r < 32 || r > 126:
			fmt.Fprintf(&b, `\u{%x}`, r)
		default:
			b.WriteRune(r)
		}
	}
	b.WriteByte('"')
	return b.String()
}

// ---------------------------------------------------------------------------
// Registry of sorts, functions and axioms used by one verification unit.

type Registry struct {
	mapTypes map[string]int
	sortDecls []string          // in dependency order
	sortSeen  map[string]bool   // sort name -> declared
	funDecls  map[string]string // name -> declaration text
	funOrder  []string
	axioms    []string // global axioms (assert ...)
	axiomSeen map[string]bool
	counter   int
	structOf  map[string]*structInfo // sort name -> struct info
	sliceElem map[string]string      // slice sort -> elem sort
	tags      map[string]int         // dynamic type tags
	tagNames  []string
	notes     map[string]bool // abstractions that were applied (havoc etc.)
}

type structInfo struct {
	sort   string
	named  string // Go name for reports
	fields []fieldInfo
	st     *types.Struct
}

type fieldInfo struct {
	name string
	sort string
	typ  types.Type
}

func NewRegistry() *Registry {
	r := &Registry{
		sortSeen:  map[string]bool{"Bool": true, "Int": true, "String": true, "Real": true},
		funDecls:  map[string]string{},
		axiomSeen: map[string]bool{},
		structOf:  map[string]*structInfo{},
		sliceElem: map[string]string{},
		tags:      map[string]int{},
		notes:     map[string]bool{},
	}
	return r
}

func (r *Registry) note(s string) { r.notes[s] = true }

func (r *Registry) fresh(prefix, sort string) string {
	r.counter++
	name := fmt.Sprintf("%s!%d", sanitize(prefix), r.counter)
	r.declare(name, nil, sort)
	return name
}

func (r *Registry) declare(name string, args []string, ret string) {
	if _, ok := r.funDecls[name]; ok {
		return
	}
	if len(args) == 0 {
		r.funDecls[name] = fmt.Sprintf("(declare-const %s %s)", name, ret)
	} else {
		r.funDecls[name] = fmt.Sprintf("(declare-fun %s (%s) %s)", name, strings.Join(args, " "), ret)
	}
	r.funOrder = append(r.funOrder, name)
}

func (r *Registry) axiom(a string) {
	if r.axiomSeen[a] {
		return
	}
	r.axiomSeen[a] = true
	r.axioms = append(r.axioms, a)
}

func sanitize(s string) string {
	var b strings.Builder
	for _, c := range s {
		switch {
		case c >= 'a' && c <= 'z', c >= 'A' && c <= 'Z', c >= '0' && c <= '9', c == '_', c == '.', c == '$', c == '!':
			b.WriteRune(c)
		case c == '/' || c == '-':
			b.WriteByte('_')
		case c == '*':
			b.WriteString("P")
		case c == '[' || c == ']':
			b.WriteString("$")
		default:
			b.WriteString("_")
		}
	}
	return b.String()
}

// typeKey gives a stable, generic-instance-insensitive name for a named type.
func typeKey(t types.Type) string {
	t = types.Unalias(t)
	switch t := t.(type) {
	case *types.Named:
		obj := t.Origin().Obj()
		if obj.Pkg() == nil {
			return obj.Name()
		}
		return shortPkg(obj.Pkg().Path()) + "." + obj.Name()
	case *types.Pointer:
		return "*" + typeKey(t.Elem())
	}
	return t.String()
}

func shortPkg(path string) string {
	const mod = "github.com/jmattheis/goverter"
	if path == mod {
		return "goverter"
	}
	if strings.HasPrefix(path, mod+"/") {
		return strings.TrimPrefix(path, mod+"/")
	}
	if path == "github.com/dave/jennifer/jen" {
		return "jen"
	}
	return path
}

// sortOf maps a Go type to an SMT sort, registering datatypes on demand.
func (r *Registry) sortOf(t types.Type) string {
	if t == nil {
		return "Int"
	}
	t = types.Unalias(t)
	switch t := t.(type) {
	case *types.Basic:
		info := t.Info()
		switch {
		case info&types.IsBoolean != 0:
			return "Bool"
		case info&types.IsString != 0:
			return "String"
		case info&types.IsInteger != 0:
			return "Int"
		case info&types.IsFloat != 0:
			return "Real"
		}
		return "Int" // untyped nil, unsafe.Pointer, complex (never computed with)
	case *types.Named:
		if st, ok := t.Underlying().(*types.Struct); ok {
			return r.structSort(typeKey(t), st)
		}
		if _, ok := t.Underlying().(*types.Interface); ok {
			return "Int"
		}
		return r.sortOf(t.Underlying())
	case *types.Struct:
		if t.NumFields() == 0 {
			return r.structSort("unit", t)
		}
		return r.structSort("anon"+sanitize(t.String()), t)
	case *types.Slice:
		return r.sliceSort(r.sortOf(t.Elem()))
	case *types.Array:
		return r.sliceSort(r.sortOf(t.Elem()))
	case *types.Tuple:
		return "Int"
	case *types.TypeParam:
		// a type parameter constrained to a single (tilde) basic type has that sort (parse.Enum[T ~string])
		if it, ok := t.Constraint().Underlying().(*types.Interface); ok {
			for i := 0; i < it.NumEmbeddeds(); i++ {
				if un, ok := it.EmbeddedType(i).(*types.Union); ok && un.Len() == 1 {
					return r.sortOf(un.Term(0).Type())
				}
				if b, ok := it.EmbeddedType(i).(*types.Basic); ok {
					return r.sortOf(b)
				}
			}
		}
		return "Int"
	}
	// pointers, interfaces, maps, funcs, chans: references
	return "Int"
}

func mangleSort(s string) string {
	s = strings.ReplaceAll(s, "(Array ", "A_")
	s = strings.ReplaceAll(s, ")", "")
	s = strings.ReplaceAll(s, " ", "_")
	return sanitize(s)
}

func (r *Registry) sliceSort(elem string) string {
	name := "Sl_" + mangleSort(elem)
	if !r.sortSeen[name] {
		r.sortSeen[name] = true
		r.sliceElem[name] = elem
		r.sortDecls = append(r.sortDecls, fmt.Sprintf(
			"(declare-datatypes ((%s 0)) (((mk_%s (arr_%s (Array Int %s)) (len_%s Int) (nil_%s Bool)))))",
			name, name, name, elem, name, name))
	}
	return name
}

func (r *Registry) isSlice(sort string) bool { _, ok := r.sliceElem[sort]; return ok }

func (r *Registry) structSort(key string, st *types.Struct) string {
	name := "S_" + sanitize(key)
	if r.sortSeen[name] {
		return name
	}
	r.sortSeen[name] = true
	si := &structInfo{sort: name, named: key, st: st}
	r.structOf[name] = si
	var fs []string
	seenAcc := map[string]bool{}
	for i := 0; i < st.NumFields(); i++ {
		f := st.Field(i)
		fsort := r.sortOf(f.Type())
		fname := f.Name()
		if fname == "_" || seenAcc[sanitize(fname)] {
			fname = fmt.Sprintf("%s_f%d", fname, i)
		}
		seenAcc[sanitize(fname)] = true
		si.fields = append(si.fields, fieldInfo{name: fname, sort: fsort, typ: f.Type()})
		fs = append(fs, fmt.Sprintf("(%s_%s %s)", name, sanitize(fname), fsort))
	}
	if len(fs) == 0 {
		r.sortDecls = append(r.sortDecls, fmt.Sprintf("(declare-datatypes ((%s 0)) (((mk_%s))))", name, name))
	} else {
		r.sortDecls = append(r.sortDecls, fmt.Sprintf("(declare-datatypes ((%s 0)) (((mk_%s %s))))", name, name, strings.Join(fs, " ")))
	}
	return name
}

func (r *Registry) structInfoOf(sort string) *structInfo { return r.structOf[sort] }

// zero value of a sort
func (r *Registry) zero(sort string) string {
	switch sort {
	case "Bool":
		return "false"
	case "Int":
		return "0"
	case "String":
		return `""`
	case "Real":
		return "0.0"
	}
	if elem, ok := r.sliceElem[sort]; ok {
		name := "emptyarr_" + mangleSort(elem)
		r.declare(name, nil, "(Array Int "+elem+")")
		return fmt.Sprintf("(mk_%s %s 0 true)", sort, name)
	}
	if si, ok := r.structOf[sort]; ok {
		if len(si.fields) == 0 {
			return "mk_" + sort
		}
		var zs []string
		for _, f := range si.fields {
			zs = append(zs, r.zero(f.sort))
		}
		return "(mk_" + sort + " " + strings.Join(zs, " ") + ")"
	}
	if strings.HasPrefix(sort, "(Array ") {
		// (Array K V): constant array of zero V
		k, v := splitArraySort(sort)
		_ = k
		return fmt.Sprintf("((as const %s) %s)", sort, r.zero(v))
	}
	return "0"
}

func splitArraySort(s string) (string, string) {
	// s = "(Array K V)"
	inner := s[len("(Array ") : len(s)-1]
	d := 0
	for i := 0; i < len(inner); i++ {
		switch inner[i] {
		case '(':
			d++
		case ')':
			d--
		case ' ':
			if d == 0 {
				return inner[:i], inner[i+1:]
			}
		}
	}
	return inner, "Int"
}

// dynamic type tags for interface values
func (r *Registry) tagOf(t types.Type) string {
	k := typeKey(t)
	if _, ok := r.tags[k]; !ok {
		r.tags[k] = len(r.tags) + 1
		r.tagNames = append(r.tagNames, k)
	}
	return fmt.Sprintf("%d", r.tags[k])
}

func (r *Registry) tagOfName(k string) string {
	if _, ok := r.tags[k]; !ok {
		r.tags[k] = len(r.tags) + 1
		r.tagNames = append(r.tagNames, k)
	}
	return fmt.Sprintf("%d", r.tags[k])
}

func (r *Registry) dyn(ref string) string {
	r.declare("dyn", []string{"Int"}, "Int")
	return "(dyn " + ref + ")"
}

// script renders the declarations prelude.
func (r *Registry) prelude() string {
	var b strings.Builder
	b.WriteString("(set-option :produce-models true)\n")
	for _, d := range r.sortDecls {
		b.WriteString(d)
		b.WriteByte('\n')
	}
	for _, n := range r.funOrder {
		b.WriteString(r.funDecls[n])
		b.WriteByte('\n')
	}
	for _, a := range r.axioms {
		b.WriteString("(assert " + a + ")\n")
	}
	return b.String()
}

func (r *Registry) sortedNotes() []string {
	var out []string
	for n := range r.notes {
		out = append(out, n)
	}
	sort.Strings(out)
	return out
}

// ensureSort declares a datatype sort that was first registered in another registry
// (heap keys computed by the module-wide write/read-set analysis name such sorts).
func (r *Registry) ensureSort(name string, from *Registry) {
	if r.sortSeen[name] || from == nil {
		return
	}
	if strings.HasPrefix(name, "(Array ") {
		k, v := splitArraySort(name)
		r.ensureSort(k, from)
		r.ensureSort(v, from)
		return
	}
	if elem, ok := from.sliceElem[name]; ok {
		r.ensureSort(elem, from)
		r.sliceSort(elem)
		return
	}
	if si, ok := from.structOf[name]; ok {
		for _, f := range si.fields {
			r.ensureSort(f.sort, from)
		}
		r.structSort(si.named, si.st)
	}
}

// mapTypeID: a stable number per Go map type. Instantiations of a generic type share their heap arrays
// (heap keys use the origin type), so type arguments are erased; a map type that mentions a type parameter
// gets no number at all (0): nothing is assumed about it.
func (r *Registry) mapTypeID(mt *types.Map) int {
	if r.mapTypes == nil {
		r.mapTypes = map[string]int{}
	}
	k, ok := canonTypeString(mt)
	if !ok {
		return 0
	}
	if id, ok := r.mapTypes[k]; ok {
		return id
	}
	id := len(r.mapTypes) + 1
	r.mapTypes[k] = id
	return id
}

// canonTypeString prints a type with the type arguments of generic named types erased; ok is false when the
// type mentions a type parameter
func canonTypeString(t types.Type) (string, bool) {
	switch v := types.Unalias(t).(type) {
	case *types.TypeParam:
		return "", false
	case *types.Named:
		o := v.Origin().Obj()
		if o.Pkg() == nil {
			return o.Name(), true
		}
		return o.Pkg().Path() + "." + o.Name(), true
	case *types.Pointer:
		e, ok := canonTypeString(v.Elem())
		return "*" + e, ok
	case *types.Slice:
		e, ok := canonTypeString(v.Elem())
		return "[]" + e, ok
	case *types.Array:
		e, ok := canonTypeString(v.Elem())
		return fmt.Sprintf("[%d]%s", v.Len(), e), ok
	case *types.Map:
		k, ok1 := canonTypeString(v.Key())
		e, ok2 := canonTypeString(v.Elem())
		return "map[" + k + "]" + e, ok1 && ok2
	case *types.Chan:
		e, ok := canonTypeString(v.Elem())
		return "chan " + e, ok
	case *types.Struct:
		var parts []string
		for i := 0; i < v.NumFields(); i++ {
			e, ok := canonTypeString(v.Field(i).Type())
			if !ok {
				return "", false
			}
			parts = append(parts, v.Field(i).Name()+" "+e)
		}
		return "struct{" + strings.Join(parts, ";") + "}", true
	}
	if containsTypeParam(t) {
		return "", false
	}
	return types.TypeString(t, nil), true
}
