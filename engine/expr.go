package main

// Symbolic evaluation of expressions.

import (
	"fmt"
	"go/ast"
	"go/constant"
	"go/token"
	"go/types"
	"strconv"
	"strings"
)

var tBool = types.Typ[types.Bool]
var tInt = types.Typ[types.Int]
var tString = types.Typ[types.String]

func (u *Unit) constVal(v constant.Value, t types.Type) (Val, bool) {
	if v == nil {
		return Val{}, false
	}
	switch v.Kind() {
	case constant.Bool:
		if constant.BoolVal(v) {
			return Val{T: "true", S: "Bool", GT: t}, true
		}
		return Val{T: "false", S: "Bool", GT: t}, true
	case constant.String:
		return Val{T: strLit(constant.StringVal(v)), S: "String", GT: t}, true
	case constant.Int:
		if u.reg.sortOf(t) == "Real" {
			f, _ := constant.Float64Val(v)
			return Val{T: realLit(f), S: "Real", GT: t}, true
		}
		if i, ok := constant.Int64Val(v); ok {
			return Val{T: intLit(i), S: "Int", GT: t}, true
		}
		return Val{T: v.ExactString(), S: "Int", GT: t}, true
	case constant.Float:
		f, _ := constant.Float64Val(v)
		return Val{T: realLit(f), S: "Real", GT: t}, true
	}
	return Val{}, false
}

func realLit(f float64) string {
	s := strconv.FormatFloat(f, 'f', -1, 64)
	if !strings.Contains(s, ".") {
		s += ".0"
	}
	if strings.HasPrefix(s, "-") {
		return "(- " + s[1:] + ")"
	}
	return s
}

func (u *Unit) evalExpr(e ast.Expr, st *State) Val {
	if tv, ok := u.info.Types[e]; ok && tv.Value != nil {
		if v, ok := u.constVal(tv.Value, tv.Type); ok {
			return v
		}
	}
	switch e := e.(type) {
	case *ast.ParenExpr:
		return u.evalExpr(e.X, st)
	case *ast.BasicLit:
		tv := u.info.Types[e]
		if v, ok := u.constVal(tv.Value, tv.Type); ok {
			return v
		}
		u.fail("unsupported literal %s at %s", e.Value, u.pos(e))
	case *ast.Ident:
		return u.evalIdent(e, st)
	case *ast.SelectorExpr:
		return u.evalSelector(e, st)
	case *ast.CallExpr:
		vals := u.evalCall(e, st)
		if len(vals) == 0 {
			return Val{T: "0", S: "Int"}
		}
		return vals[0]
	case *ast.UnaryExpr:
		return u.evalUnary(e, st)
	case *ast.BinaryExpr:
		return u.evalBinary(e, st)
	case *ast.IndexExpr:
		return u.evalIndex(e, st)
	case *ast.SliceExpr:
		return u.evalSlice(e, st)
	case *ast.CompositeLit:
		return u.evalComposite(e, st, false)
	case *ast.StarExpr:
		p := u.evalExpr(e.X, st)
		pt, _ := typeOf(u.info, e.X).Underlying().(*types.Pointer)
		if pt == nil {
			u.fail("dereference of non-pointer at %s", u.pos(e))
		}
		u.nilCheck(st, e, p)
		return u.loadDeref(st, p, pt.Elem())
	case *ast.TypeAssertExpr:
		x := u.evalExpr(e.X, st)
		t := typeOf(u.info, e.Type)
		ok := u.dynTest(st, x, t)
		if !u.noSafety && !u.inSpec {
			u.oblige(st, u.site(e, "assert-type"), "assert-type", ok, []string{"C13"}, nil, "unchecked type assertion: "+exprString(e), e)
		}
		st.assume(ok)
		return u.unbox(st, x, t)
	case *ast.FuncLit:
		return Val{T: u.reg.fresh("closure", "Int"), S: "Int", GT: typeOf(u.info, e), Closure: &closure{lit: e}}
	case *ast.KeyValueExpr:
		u.fail("unexpected key-value expression at %s", u.pos(e))
	}
	u.fail("unsupported expression %T at %s", e, u.pos(e))
	return Val{}
}

func (u *Unit) evalIdent(e *ast.Ident, st *State) Val {
	obj := u.info.ObjectOf(e)
	switch o := obj.(type) {
	case *types.Nil:
		return Val{T: "nil", S: "nil"}
	case *types.Const:
		if v, ok := u.constVal(o.Val(), o.Type()); ok {
			return v
		}
	case *types.Var:
		if u.inSpec {
			if v, ok := u.specBind[o]; ok {
				return v
			}
		}
		if v, ok := st.env[o]; ok {
			return v
		}
		if u.isGlobal(o) {
			return u.evalGlobal(o, st)
		}
		// captured variable of an enclosing function or unknown: havoc
		srt := u.reg.sortOf(o.Type())
		v := Val{T: u.reg.fresh("unk_"+o.Name(), srt), S: srt, GT: o.Type()}
		st.env[o] = v
		return v
	case *types.Func:
		return u.funcRef(o)
	case *types.Builtin:
		u.fail("builtin %s used as value at %s", o.Name(), u.pos(e))
	case nil:
		if e.Name == "_" {
			return Val{T: "0", S: "Int"}
		}
	}
	u.fail("unsupported identifier %s (%T) at %s", e.Name, obj, u.pos(e))
	return Val{}
}

func (u *Unit) funcRef(f *types.Func) Val {
	name := "fn_" + sanitize(funcKeyOfObj(f))
	u.reg.declare(name, nil, "Int")
	u.reg.axiom("(> " + name + " 0)")
	return Val{T: name, S: "Int", GT: f.Type(), FuncObj: f}
}

func (u *Unit) evalGlobal(o *types.Var, st *State) Val {
	key := "G:" + shortPkg(o.Pkg().Path()) + "." + o.Name()
	srt := u.reg.sortOf(o.Type())
	// package-level variables that are never assigned keep their initial value
	if gi := u.prog.globalInit(o); gi != nil {
		if v, ok := u.evalGlobalInit(o, gi, st); ok {
			return v
		}
	}
	if t, ok := st.heap[key]; ok {
		return Val{T: t, S: srt, GT: o.Type()}
	}
	name := "G_" + sanitize(shortPkg(o.Pkg().Path())+"."+o.Name())
	u.reg.declare(name, nil, srt)
	u.heapSort[key] = srt
	st.heap[key] = name
	v := Val{T: name, S: srt, GT: o.Type()}
	return v
}

func (u *Unit) evalSelector(e *ast.SelectorExpr, st *State) Val {
	if sel, ok := u.info.Selections[e]; ok {
		switch sel.Kind() {
		case types.FieldVal:
			return u.evalFieldPath(e, e.X, sel.Index(), st)
		case types.MethodVal:
			// method value used as a function value (e.g. ctx.Name): opaque reference
			recv := u.evalExpr(e.X, st)
			f := sel.Obj().(*types.Func)
			name := "mv_" + sanitize(funcKeyOfObj(f))
			u.reg.declare(name, []string{recv.S}, "Int")
			return Val{T: "(" + name + " " + recv.T + ")", S: "Int", GT: typeOf(u.info, e), FuncObj: f, Recv: &recv}
		}
		u.fail("unsupported selection kind at %s", u.pos(e))
	}
	// qualified identifier
	return u.evalIdent(e.Sel, st)
}

func (u *Unit) evalFieldPath(n ast.Node, base ast.Expr, path []int, st *State) Val {
	cur := u.evalExpr(base, st)
	curT := typeOf(u.info, base)
	return u.walkFields(n, cur, curT, path, st)
}

func (u *Unit) walkFields(n ast.Node, cur Val, curT types.Type, path []int, st *State) Val {
	for _, idx := range path {
		owner := curT
		isPtr := false
		if p, ok := types.Unalias(curT).Underlying().(*types.Pointer); ok {
			isPtr = true
			owner = p.Elem()
		}
		stt, ok := owner.Underlying().(*types.Struct)
		if !ok {
			u.fail("field selection on non-struct %s at %s", curT, u.pos(n))
		}
		f := stt.Field(idx)
		if isPtr {
			u.nilCheck(st, n, cur)
			u.assumeTypeInv(st, cur, owner)
			cur = u.loadField(st, cur, owner, f)
			u.allocFact(st, cur)
		} else {
			cur = u.structGet(cur, f, idx)
		}
		curT = f.Type()
	}
	return cur
}

func (u *Unit) evalUnary(e *ast.UnaryExpr, st *State) Val {
	switch e.Op {
	case token.NOT:
		v := u.evalExpr(e.X, st)
		return Val{T: not(v.T), S: "Bool", GT: tBool}
	case token.SUB:
		v := u.evalExpr(e.X, st)
		return Val{T: "(- " + v.T + ")", S: v.S, GT: v.GT}
	case token.ADD:
		return u.evalExpr(e.X, st)
	case token.AND:
		x := ast.Unparen(e.X)
		if cl, ok := x.(*ast.CompositeLit); ok {
			return u.evalComposite(cl, st, true)
		}
		// address of an l-value: value-result pointer
		t := typeOf(u.info, e)
		xv := u.evalExpr(x, st)
		r := u.newRef(st, "addr")
		// initialise the cell / fields with the current value
		pt := t.Underlying().(*types.Pointer)
		u.storeDerefNoFrame(st, Val{T: r, S: "Int", GT: t}, pt.Elem(), xv)
		return Val{T: r, S: "Int", GT: t, Addr: x}
	}
	u.fail("unsupported unary operator %s at %s", e.Op, u.pos(e))
	return Val{}
}

func (u *Unit) storeDerefNoFrame(st *State, p Val, elem types.Type, v Val) {
	saved := u.suppressAssigns
	u.suppressAssigns = true
	u.storeDeref(st, p, elem, v)
	u.suppressAssigns = saved
}

func (u *Unit) evalBinary(e *ast.BinaryExpr, st *State) Val {
	if e.Op == token.LAND || e.Op == token.LOR {
		l := u.evalExpr(e.X, st)
		if u.isPureExpr(e.Y) {
			// evaluate the right operand under the guard (for its safety obligations)
			g := l.T
			if e.Op == token.LOR {
				g = not(l.T)
			}
			n := len(st.pc)
			st.pc = append(st.pc, g)
			r := u.evalExpr(e.Y, st)
			// keep facts learned (they are guarded), drop the guard itself
			var learned []string
			if len(st.pc) > n+1 {
				learned = append([]string(nil), st.pc[n+1:]...)
			}
			st.pc = st.pc[:n]
			for _, f := range learned {
				st.assume(implies(g, f))
			}
			if e.Op == token.LAND {
				return Val{T: and(l.T, r.T), S: "Bool", GT: tBool}
			}
			return Val{T: or(l.T, r.T), S: "Bool", GT: tBool}
		}
		// impure right operand: fork and merge
		g := l.T
		if e.Op == token.LOR {
			g = not(l.T)
		}
		a := st.clone()
		a.assume(g)
		r := u.evalExpr(e.Y, a)
		b := st.clone()
		b.assume(not(g))
		res := u.reg.fresh("sc", "Bool")
		if e.Op == token.LAND {
			a.assume(eq(res, r.T))
			b.assume(eq(res, "false"))
		} else {
			a.assume(eq(res, r.T))
			b.assume(eq(res, "true"))
		}
		m := u.merge(a, b)
		*st = *m
		return Val{T: res, S: "Bool", GT: tBool}
	}
	l := u.evalExpr(e.X, st)
	r := u.evalExpr(e.Y, st)
	return u.binary(e.Op, l, r, st, e)
}

// isPureExpr: no calls with side effects on the modelled state.
func (u *Unit) isPureExpr(e ast.Expr) bool {
	pure := true
	ast.Inspect(e, func(n ast.Node) bool {
		ce, ok := n.(*ast.CallExpr)
		if !ok {
			return true
		}
		if tv, ok := u.info.Types[ce.Fun]; ok && tv.IsType() {
			return true
		}
		if id, ok := ce.Fun.(*ast.Ident); ok {
			if _, ok := u.info.Uses[id].(*types.Builtin); ok {
				return true
			}
		}
		f := u.staticCallee(ce)
		if f == nil {
			// function values: treated as uninterpreted pure functions of the epoch
			return true
		}
		if f.Pkg() == nil || !strings.HasPrefix(f.Pkg().Path(), modPath) {
			return true
		}
		if u.inSpec {
			return true
		}
		if c := u.prog.contractOf(f); c != nil && c.Pure {
			return true
		}
		if ms := u.prog.ModSets[f.Origin()]; len(ms) == 0 {
			if c := u.prog.contractOf(f); c != nil || u.prog.funcOf(f) == nil {
				return true
			}
		}
		pure = false
		return false
	})
	return pure
}

func (u *Unit) binary(op token.Token, l, r Val, st *State, n ast.Node) Val {
	switch op {
	case token.EQL:
		return Val{T: u.equalVals(l, r, st), S: "Bool", GT: tBool}
	case token.NEQ:
		return Val{T: not(u.equalVals(l, r, st)), S: "Bool", GT: tBool}
	}
	if l.S == "nil" || r.S == "nil" {
		u.fail("nil operand of %s at %s", op, u.pos(n))
	}
	switch op {
	case token.ADD:
		if l.S == "String" {
			return Val{T: "(str.++ " + l.T + " " + r.T + ")", S: "String", GT: l.GT}
		}
		return Val{T: "(+ " + l.T + " " + r.T + ")", S: l.S, GT: l.GT}
	case token.SUB:
		return Val{T: "(- " + l.T + " " + r.T + ")", S: l.S, GT: l.GT}
	case token.MUL:
		return Val{T: "(* " + l.T + " " + r.T + ")", S: l.S, GT: l.GT}
	case token.QUO:
		if l.S == "Int" {
			if !u.noSafety && !u.inSpec {
				u.oblige(st, u.site(n, "div"), "div", not(eq(r.T, "0")), []string{"C13"}, nil, "division by zero", n)
			}
			return Val{T: "(div " + l.T + " " + r.T + ")", S: "Int", GT: l.GT}
		}
		return Val{T: "(/ " + l.T + " " + r.T + ")", S: l.S, GT: l.GT}
	case token.REM:
		return Val{T: "(mod " + l.T + " " + r.T + ")", S: "Int", GT: l.GT}
	case token.LSS, token.LEQ, token.GTR, token.GEQ:
		sym := map[token.Token]string{token.LSS: "<", token.LEQ: "<=", token.GTR: ">", token.GEQ: ">="}[op]
		if l.S == "String" {
			ssym := map[token.Token]string{token.LSS: "str.<", token.LEQ: "str.<="}[op]
			if ssym != "" {
				return Val{T: "(" + ssym + " " + l.T + " " + r.T + ")", S: "Bool", GT: tBool}
			}
			osym := map[token.Token]string{token.GTR: "str.<", token.GEQ: "str.<="}[op]
			return Val{T: "(" + osym + " " + r.T + " " + l.T + ")", S: "Bool", GT: tBool}
		}
		return Val{T: "(" + sym + " " + l.T + " " + r.T + ")", S: "Bool", GT: tBool}
	case token.AND:
		// bit mask tests (types.BasicInfo): uninterpreted
		u.reg.declare("bitand", []string{"Int", "Int"}, "Int")
		return Val{T: "(bitand " + l.T + " " + r.T + ")", S: "Int", GT: l.GT}
	case token.OR:
		u.reg.declare("bitor", []string{"Int", "Int"}, "Int")
		return Val{T: "(bitor " + l.T + " " + r.T + ")", S: "Int", GT: l.GT}
	}
	u.fail("unsupported binary operator %s at %s", op, u.pos(n))
	return Val{}
}

func (u *Unit) equalVals(l, r Val, st *State) string {
	if l.S == "nil" && r.S == "nil" {
		return "true"
	}
	if l.S == "nil" {
		l, r = r, l
	}
	if r.S == "nil" {
		if u.reg.isSlice(l.S) {
			return "(nil_" + l.S + " " + l.T + ")"
		}
		return eq(l.T, "0")
	}
	if l.S != r.S {
		u.fail("comparison of different sorts %s and %s (%s == %s)", l.S, r.S, l.T, r.T)
	}
	// interface values holding boxed non-pointer values: value equality may hold
	// between different boxes
	if l.S == "Int" && u.isBoxyInterface(l.GT) && u.isBoxyInterface(r.GT) {
		u.reg.declare("ifaceEq", []string{"Int", "Int"}, "Bool")
		return or(eq(l.T, r.T), "(ifaceEq "+l.T+" "+r.T+")")
	}
	return eq(l.T, r.T)
}

// isBoxyInterface: an interface type whose dynamic values may be non-pointers (any, error ...)
func (u *Unit) isBoxyInterface(t types.Type) bool {
	if t == nil {
		return false
	}
	it, ok := types.Unalias(t).Underlying().(*types.Interface)
	if !ok {
		return false
	}
	return it.NumMethods() == 0
}

func (u *Unit) sliceLen(v Val) string {
	if v.S == "String" {
		return "(str.len " + v.T + ")"
	}
	if !u.reg.isSlice(v.S) {
		u.fail("len of non-slice sort %s", v.S)
	}
	return "(len_" + v.S + " " + v.T + ")"
}

func (u *Unit) evalIndex(e *ast.IndexExpr, st *State) Val {
	// generic instantiation f[T]
	if tv, ok := u.info.Types[e.X]; ok {
		if _, isSig := tv.Type.Underlying().(*types.Signature); isSig {
			return u.evalExpr(e.X, st)
		}
	}
	xt := typeOf(u.info, e.X)
	x := u.evalExpr(e.X, st)
	switch t := xt.Underlying().(type) {
	case *types.Map:
		k := u.convert(u.evalExpr(e.Index, st), t.Key(), st)
		v, _ := u.mapLookup(st, x, k, t)
		return v
	case *types.Slice, *types.Array:
		i := u.evalExpr(e.Index, st)
		u.boundsCheck(st, e, i.T, u.sliceLen(x))
		var et types.Type
		if s, ok := t.(*types.Slice); ok {
			et = s.Elem()
		} else {
			et = t.(*types.Array).Elem()
		}
		v := Val{T: "(select (arr_" + x.S + " " + x.T + ") " + i.T + ")", S: u.reg.sliceElem[x.S], GT: et}
		if len(x.Elems) > 0 {
			if n, err := strconv.Atoi(i.T); err == nil && n >= 0 && n < len(x.Elems) {
				return x.Elems[n]
			}
		}
		u.allocFact(st, v)
		return v
	case *types.Basic:
		i := u.evalExpr(e.Index, st)
		u.boundsCheck(st, e, i.T, "(str.len "+x.T+")")
		return Val{T: "(str.to_code (str.at " + x.T + " " + i.T + "))", S: "Int", GT: types.Typ[types.Uint8]}
	}
	u.fail("unsupported index expression on %s at %s", xt, u.pos(e))
	return Val{}
}

func (u *Unit) evalSlice(e *ast.SliceExpr, st *State) Val {
	x := u.evalExpr(e.X, st)
	lo := "0"
	if e.Low != nil {
		lo = u.evalExpr(e.Low, st).T
	}
	length := u.sliceLen(x)
	hi := length
	if e.High != nil {
		hi = u.evalExpr(e.High, st).T
	}
	if !u.noSafety && !u.inSpec {
		goal := and("(<= 0 "+lo+")", "(<= "+lo+" "+hi+")", "(<= "+hi+" "+length+")")
		// for slices the upper bound is the capacity; with value semantics cap == len is the
		// conservative choice except for the s[0:n] re-slice idiom (n <= len is what matters)
		u.oblige(st, u.site(e, "slice"), "slice", goal, []string{"C13"}, nil, "slice bounds out of range: "+exprString(e), e)
		st.assume(goal)
	}
	if x.S == "String" {
		return Val{T: "(str.substr " + x.T + " " + lo + " (- " + hi + " " + lo + "))", S: "String", GT: x.GT}
	}
	if lo == "0" {
		return Val{T: fmt.Sprintf("(mk_%s (arr_%s %s) %s false)", x.S, x.S, x.T, hi), S: x.S, GT: x.GT}
	}
	// shifted view: fresh array related element-wise
	elem := u.reg.sliceElem[x.S]
	na := u.reg.fresh("shift", "(Array Int "+elem+")")
	st.assume(fmt.Sprintf("(forall ((j Int)) (! (=> (and (<= 0 j) (< j (- %s %s))) (= (select %s j) (select (arr_%s %s) (+ j %s)))) :pattern ((select %s j))))", hi, lo, na, x.S, x.T, lo, na))
	return Val{T: fmt.Sprintf("(mk_%s %s (- %s %s) false)", x.S, na, hi, lo), S: x.S, GT: x.GT}
}

func (u *Unit) evalComposite(e *ast.CompositeLit, st *State, addr bool) Val {
	t := typeOf(u.info, e)
	switch ut := t.Underlying().(type) {
	case *types.Struct:
		srt := u.reg.sortOf(t)
		si := u.reg.structInfoOf(srt)
		vals := make([]Val, ut.NumFields())
		for i := 0; i < ut.NumFields(); i++ {
			vals[i] = Val{T: u.reg.zero(si.fields[i].sort), S: si.fields[i].sort, GT: ut.Field(i).Type()}
		}
		for i, el := range e.Elts {
			if kv, ok := el.(*ast.KeyValueExpr); ok {
				name := kv.Key.(*ast.Ident).Name
				for j := 0; j < ut.NumFields(); j++ {
					if ut.Field(j).Name() == name {
						vals[j] = u.convert(u.evalExprExpect(kv.Value, ut.Field(j).Type(), st), ut.Field(j).Type(), st)
					}
				}
			} else {
				vals[i] = u.convert(u.evalExprExpect(el, ut.Field(i).Type(), st), ut.Field(i).Type(), st)
			}
		}
		if addr && u.isNamedStruct(t) {
			r := u.newRef(st, sanitize(typeKey(t)))
			pv := Val{T: r, S: "Int", GT: types.NewPointer(t)}
			saved := u.suppressAssigns
			u.suppressAssigns = true
			for i := 0; i < ut.NumFields(); i++ {
				u.storeField(st, pv, t, ut.Field(i), vals[i], e)
			}
			u.suppressAssigns = saved
			st.assume(eq(u.reg.dyn(r), u.reg.tagOf(types.NewPointer(t))))
			return pv
		}
		var args []string
		for _, v := range vals {
			args = append(args, v.T)
		}
		sv := Val{T: "mk_" + srt, S: srt, GT: t}
		if len(args) > 0 {
			sv.T = "(mk_" + srt + " " + strings.Join(args, " ") + ")"
		}
		if addr {
			r := u.newRef(st, "anon")
			pv := Val{T: r, S: "Int", GT: types.NewPointer(t)}
			u.storeDerefNoFrame(st, pv, t, sv)
			return pv
		}
		return sv
	case *types.Slice, *types.Array:
		var et types.Type
		if s, ok := ut.(*types.Slice); ok {
			et = s.Elem()
		} else {
			et = ut.(*types.Array).Elem()
		}
		srt := u.reg.sortOf(t)
		elem := u.reg.sliceElem[srt]
		arr := "emptyarr_" + mangleSort(elem)
		u.reg.declare(arr, nil, "(Array Int "+elem+")")
		var elems []Val
		for i, el := range e.Elts {
			if kv, ok := el.(*ast.KeyValueExpr); ok {
				el = kv.Value
			}
			v := u.convert(u.evalExprExpect(el, et, st), et, st)
			elems = append(elems, v)
			arr = fmt.Sprintf("(store %s %d %s)", arr, i, v.T)
		}
		return Val{T: fmt.Sprintf("(mk_%s %s %d false)", srt, arr, len(e.Elts)), S: srt, GT: t, Elems: elems}
	case *types.Map:
		r := u.newRef(st, "map")
		u.mapTypeFact(st, r, t)
		m := Val{T: r, S: "Int", GT: t}
		ks := u.reg.sortOf(ut.Key())
		vs := u.reg.sortOf(ut.Elem())
		mdKey := "MD:" + ks
		mvKey := "MV:" + ks + "|" + vs
		hd := u.heapTerm(st, mdKey, u.sortOfHeapKey(mdKey))
		if u.globalMode {
			dom := "((as const (Array " + ks + " Bool)) false)"
			hv := u.heapTerm(st, mvKey, u.sortOfHeapKey(mvKey))
			for _, el := range e.Elts {
				kv := el.(*ast.KeyValueExpr)
				k := u.convert(u.evalExprExpect(kv.Key, ut.Key(), st), ut.Key(), st)
				v := u.convert(u.evalExprExpect(kv.Value, ut.Elem(), st), ut.Elem(), st)
				dom = "(store " + dom + " " + k.T + " true)"
				u.reg.axiom(eq("(select (select "+hv+" "+r+") "+k.T+")", v.T))
			}
			u.reg.axiom(eq("(select "+hd+" "+r+")", dom))
			return m
		}
		st.heap[mdKey] = "(store " + hd + " " + r + " ((as const (Array " + ks + " Bool)) false))"
		u.heapTerm(st, mvKey, u.sortOfHeapKey(mvKey))
		for _, el := range e.Elts {
			kv := el.(*ast.KeyValueExpr)
			k := u.convert(u.evalExprExpect(kv.Key, ut.Key(), st), ut.Key(), st)
			v := u.convert(u.evalExprExpect(kv.Value, ut.Elem(), st), ut.Elem(), st)
			saved := u.suppressAssigns
			u.suppressAssigns = true
			u.mapStore(st, m, k, v, ut)
			u.suppressAssigns = saved
		}
		return m
	}
	u.fail("unsupported composite literal of type %s at %s", t, u.pos(e))
	return Val{}
}

// evalExprExpect evaluates composite literals with elided types.
func (u *Unit) evalExprExpect(e ast.Expr, want types.Type, st *State) Val {
	if cl, ok := e.(*ast.CompositeLit); ok && cl.Type == nil {
		if p, ok := want.Underlying().(*types.Pointer); ok {
			_ = p
			return u.evalComposite(cl, st, true)
		}
	}
	return u.evalExpr(e, st)
}

// ---------------------------------------------------------------------------
// maps

func (u *Unit) mapKeys(mt *types.Map) (string, string, string, string) {
	ks := u.reg.sortOf(mt.Key())
	vs := u.reg.sortOf(mt.Elem())
	if vs == "Int" && u.isRefType(mt.Elem()) {
		u.refMapValue["MV:"+ks+"|"+vs] = true
	}
	return ks, vs, "MD:" + ks, "MV:" + ks + "|" + vs
}

func (u *Unit) mapDom(st *State, m Val, mt *types.Map) string {
	_, _, mdKey, _ := u.mapKeys(mt)
	h := u.heapTerm(st, mdKey, u.sortOfHeapKey(mdKey))
	ks := u.reg.sortOf(mt.Key())
	// a nil map has no keys
	return ite(eq(m.T, "0"), "((as const (Array "+ks+" Bool)) false)", "(select "+h+" "+m.T+")")
}

func (u *Unit) mapLookup(st *State, m, k Val, mt *types.Map) (Val, Val) {
	ks, vs, mdKey, mvKey := u.mapKeys(mt)
	hdS, hvS := u.sortOfHeapKey(mdKey), u.sortOfHeapKey(mvKey)
	hd := u.heapTerm(st, mdKey, hdS)
	hv := u.heapTerm(st, mvKey, hvS)
	// map access through two defined functions (compact, E-matching friendly terms):
	//   maphas(D, m, k)     = m != nil && D[m][k]
	//   mapget(D, V, m, k)  = maphas(D, m, k) ? V[m][k] : zero          (a nil map has no keys)
	has := "maphas_" + mangleSort(ks)
	get := "mapget_" + mangleSort(ks) + "_" + mangleSort(vs)
	if _, ok := u.reg.funDecls[has]; !ok {
		u.reg.declare(has, []string{hdS, "Int", ks}, "Bool")
		u.reg.axiom(fmt.Sprintf("(forall ((d %s) (m Int) (k %s)) (! (= (%s d m k) (and (not (= m 0)) (select (select d m) k))) :pattern ((%s d m k))))", hdS, ks, has, has))
	}
	if _, ok := u.reg.funDecls[get]; !ok {
		u.reg.declare(get, []string{hdS, hvS, "Int", ks}, vs)
		u.reg.axiom(fmt.Sprintf("(forall ((d %s) (v %s) (m Int) (k %s)) (! (= (%s d v m k) (ite (%s d m k) (select (select v m) k) %s)) :pattern ((%s d v m k))))", hdS, hvS, ks, get, has, u.reg.zero(vs), get))
	}
	v := Val{T: fmt.Sprintf("(%s %s %s %s %s)", get, hd, hv, m.T, k.T), S: vs, GT: mt.Elem()}
	u.allocFact(st, v)
	return v, Val{T: fmt.Sprintf("(%s %s %s %s)", has, hd, m.T, k.T), S: "Bool", GT: tBool}
}

func (u *Unit) mapStore(st *State, m, k, v Val, mt *types.Map) {
	_, _, mdKey, mvKey := u.mapKeys(mt)
	hd := u.heapTerm(st, mdKey, u.sortOfHeapKey(mdKey))
	hv := u.heapTerm(st, mvKey, u.sortOfHeapKey(mvKey))
	u.checkAssigns(st, mdKey, m, nil)
	st.heap[mdKey] = "(store " + hd + " " + m.T + " (store (select " + hd + " " + m.T + ") " + k.T + " true))"
	st.heap[mvKey] = "(store " + hv + " " + m.T + " (store (select " + hv + " " + m.T + ") " + k.T + " " + v.T + "))"
	u.bumpEpoch(st)
}

func (u *Unit) mapDelete(st *State, m, k Val, mt *types.Map) {
	_, _, mdKey, _ := u.mapKeys(mt)
	hd := u.heapTerm(st, mdKey, u.sortOfHeapKey(mdKey))
	u.checkAssigns(st, mdKey, m, nil)
	// delete on a nil map is a no-op
	st.heap[mdKey] = ite(eq(m.T, "0"), hd, "(store "+hd+" "+m.T+" (store (select "+hd+" "+m.T+") "+k.T+" false))")
	u.bumpEpoch(st)
}

// ---------------------------------------------------------------------------
// interface values

func isInterface(t types.Type) bool {
	if t == nil {
		return false
	}
	_, ok := types.Unalias(t).Underlying().(*types.Interface)
	if _, tp := types.Unalias(t).(*types.TypeParam); tp {
		return false
	}
	return ok
}

// convert adapts a value to the static type it flows into (nil literal, boxing into interfaces).
func (u *Unit) convert(v Val, to types.Type, st *State) Val {
	if to == nil {
		return v
	}
	if v.S == "nil" {
		srt := u.reg.sortOf(to)
		return Val{T: u.reg.zero(srt), S: srt, GT: to}
	}
	if isInterface(to) && v.GT != nil && !isInterface(v.GT) {
		return u.box(st, v, to)
	}
	want := u.reg.sortOf(to)
	if want != v.S {
		if want == "Real" && v.S == "Int" {
			return Val{T: "(to_real " + v.T + ")", S: "Real", GT: to}
		}
		if want == "Int" && v.S == "Real" {
			return Val{T: "(to_int " + v.T + ")", S: "Int", GT: to}
		}
		u.fail("sort mismatch: value %s of sort %s flows into type %s (sort %s)", short(v.T), v.S, to, want)
	}
	nv := v
	if !isInterface(to) || v.GT == nil {
		nv.GT = to
	} else {
		nv.GT = to
	}
	return nv
}

func short(s string) string {
	if len(s) > 60 {
		return s[:57] + "..."
	}
	return s
}

func (u *Unit) box(st *State, v Val, to types.Type) Val {
	if v.S == "Int" && u.isRefType(v.GT) {
		// pointer-like: the reference itself, with its dynamic type recorded
		if !isSimpleLiteral(v.T) {
			fact := implies(not(eq(v.T, "0")), eq(u.reg.dyn(v.T), u.reg.tagOf(v.GT)))
			if !strings.Contains(v.T, "q_") {
				// a closed term of static pointer type: its dynamic type is a fact about the term itself
				u.reg.axiom(fact)
			} else {
				st.assume(fact)
			}
		}
		nv := v
		nv.Dyn = v.GT
		nv.GT = to
		return nv
	}
	// value type: box it
	name := "box_" + mangleSort(v.S) + "_" + sanitize(typeKey(v.GT))
	u.reg.declare(name, []string{v.S}, "Int")
	unb := "unbox_" + mangleSort(v.S)
	u.reg.declare(unb, []string{"Int"}, v.S)
	r := "(" + name + " " + v.T + ")"
	st.assume("(> " + r + " 0)")
	st.assume(eq(u.reg.dyn(r), u.reg.tagOf(v.GT)))
	st.assume(eq("("+unb+" "+r+")", v.T))
	return Val{T: r, S: "Int", GT: to, Dyn: v.GT}
}

// dynTest: does interface value x hold a value of type t?
func (u *Unit) dynTest(st *State, x Val, t types.Type) string {
	if isInterface(t) {
		// interface-to-interface assertion: x != nil and implements - unknown
		if u.isErrorType(t) || true {
			b := u.reg.fresh("implements", "Bool")
			return and(not(eq(x.T, "0")), b)
		}
	}
	if x.Dyn != nil {
		if types.Identical(x.Dyn, t) {
			return not(eq(x.T, "0"))
		}
		return "false"
	}
	return and(not(eq(x.T, "0")), eq(u.reg.dyn(x.T), u.reg.tagOf(t)))
}

func (u *Unit) isErrorType(t types.Type) bool {
	n, ok := types.Unalias(t).(*types.Named)
	return ok && n.Obj().Pkg() == nil && n.Obj().Name() == "error"
}

// unbox: the concrete value of type t held by interface value x
func (u *Unit) unbox(st *State, x Val, t types.Type) Val {
	if isInterface(t) {
		nv := x
		nv.GT = t
		return nv
	}
	srt := u.reg.sortOf(t)
	if srt == "Int" && u.isRefType(t) {
		return Val{T: x.T, S: "Int", GT: t}
	}
	unb := "unbox_" + mangleSort(srt)
	u.reg.declare(unb, []string{"Int"}, srt)
	return Val{T: "(" + unb + " " + x.T + ")", S: srt, GT: t}
}
