package main

// Parsing of the //@ contract files (comment-only Go files behind the build tag
// `verif`, one per goverter package) and the textual pre-processing of
// specification expressions into plain Go expressions.

import (
	"fmt"
	"os"
	"path/filepath"
	"regexp"
	"sort"
	"strconv"
	"strings"
)

type Clause struct {
	Kind  string // requires, ensures, invariant, decreases, assert, lemma-requires ...
	Text  string // raw specification text
	Go    string // Go expression after pre-processing
	Props []string
	Label string
	File  string
	Line  int
	Loop  int    // loop ordinal for invariant/decreases
	At    string // callee#n for in-body assertions
	// filled by synth
	SpecFunc string
}

type LoopSpec struct {
	Invariants []*Clause
	Decreases  *Clause
	Unroll     bool
	Exhaustive *Clause // loop N exhaustive: the loop is never left by `break` (only by exhausting its range or by return)
}

type Contract struct {
	Pkg      string // short package key, e.g. "builder"
	Key      string // "builder.Basic.Matches"
	FuncName string // "Basic.Matches"
	Props    []string
	Requires []*Clause
	Ensures  []*Clause
	Pure     bool
	Opaque   bool
	Propagates bool
	Inline   bool
	Trusted  bool
	PropProps []string
	ErrIgnorable *Clause // when true (over the results) the caller may drop the returned error
	ParamNames []string // optional positional parameter names given in the contract header
	RecvAlias  string   // optional name of the receiver given in the contract header
	Assigns  []string
	HasAssigns bool
	Loops    map[int]*LoopSpec
	MapRange map[int]string
	SortCall map[int]string // ordinal of a sort.Slice call -> "total"
	Variant  *Clause        // recursion measure (int, >= 0, strictly smaller at every recursive call)
	Forbids  []*Clause      // forbid callee reason: no call named callee is executed (Text = "callee reason...")
	ErrDrops []string       // call sites (callee#n | callee#*) whose error result is dropped on purpose, with the reason
	PanicsIf *Clause
	Asserts  []*Clause
	File     string
	Line     int
	IsLemma  bool
	Params   string // for lemmas: parameter list text
}

type Pred struct {
	Pkg    string
	Name   string
	Params string // Go parameter list text
	Ret    string
	Body   string // raw spec text ("" for ghost functions)
	GoBody string
	Ghost  bool
	Abstract bool
	Reads    []string // heap keys an abstract predicate depends on
	File   string
	Line   int
}

type Reveal struct {
	Pkg    string // package in which the definition is visible
	Target string // pkg.Name of the abstract predicate
	Params string
	Clause *Clause
}

type TypeInv struct {
	Pkg    string
	Type   string // struct name in package
	Var    string
	Clause *Clause
}

type ContractSet struct {
	Funcs    map[string]*Contract // key -> contract
	Order    []string
	Preds    []*Pred
	Lemmas   []*Contract
	TypeInvs []*TypeInv
	ValuePtr map[string]bool // type keys passed by value-result
	Immutable map[string]bool // heap keys (F:pkg.Type.Field) that never change after construction
	Axioms   []*Clause
	Reveals  []*Reveal
	Stale    []string // contracts whose function no longer exists
	Rebound  []string // contract locals re-bound to renamed code locals
	Files    map[string]string // pkg short -> file path used
	Sources  []string          // provenance notes
}

var clauseKeywords = map[string]bool{
	"func": true, "props": true, "requires": true, "ensures": true, "pure": true, "opaque": true, "propagates": true, "errignorable": true, "inline": true,
	"trusted": true, "assigns": true, "loop": true, "maprange": true, "sortcall": true, "errdrop": true, "forbid": true, "variant": true, "panics": true, "at": true,
	"pred": true, "ghost": true, "abstract": true, "reveal": true, "reads": true, "lemma": true, "typeinv": true, "axiom": true, "valueptr": true,
	"note": true, "end": true, "immutable": true,
}

var kwRe = regexp.MustCompile(`^([a-z]+)(@[A-Za-z0-9,:_\-]+)?(\s|$)`)

// pkgDirs lists the goverter packages (directory relative to the repo root ->
// short key) that may carry a contract file.
var pkgDirs = map[string]string{
	".": "goverter", "builder": "builder", "cli": "cli", "comments": "comments", "config": "config",
	"config/parse": "config/parse", "enum": "enum", "generator": "generator", "method": "method",
	"namer": "namer", "pkgload": "pkgload", "xtype": "xtype",
}

const contractFileName = "zz_contracts_verif.go"

func loadContracts(repo, mirror string) (*ContractSet, error) {
	cs := &ContractSet{Funcs: map[string]*Contract{}, ValuePtr: map[string]bool{}, Immutable: map[string]bool{}, Files: map[string]string{}}
	var dirs []string
	for d := range pkgDirs {
		dirs = append(dirs, d)
	}
	sort.Strings(dirs)
	for _, d := range dirs {
		short := pkgDirs[d]
		p := filepath.Join(repo, d, contractFileName)
		m := filepath.Join(mirror, strings.ReplaceAll(short, "/", "_")+".go")
		data, err := os.ReadFile(p)
		src := p
		if os.Getenv("VERIF_PREFER_MIRROR") == "1" {
			// development mode: take the mirror copy even if the repository has one
			if md, merr := os.ReadFile(m); merr == nil {
				data, err = nil, fmt.Errorf("mirror preferred")
				_ = md
			}
		}
		if err != nil {
			data, err = os.ReadFile(m)
			src = m
			if err != nil {
				continue
			}
			cs.Sources = append(cs.Sources, fmt.Sprintf("contract file for %s missing in repo, injected from mirror %s", short, m))
		} else if md, err2 := os.ReadFile(m); err2 == nil && string(md) != string(data) {
			cs.Sources = append(cs.Sources, fmt.Sprintf("contract file %s differs from mirror %s (repo copy used)", p, m))
		}
		cs.Files[short] = src
		if err := cs.parseFile(short, src, string(data)); err != nil {
			return nil, err
		}
	}
	return cs, nil
}

func (cs *ContractSet) parseFile(pkg, file, text string) error {
	lines := strings.Split(text, "\n")
	var cur *Contract
	var last *string // continuation target
	var lastClause *Clause
	var lastReads *Pred
	finishClause := func() {
		last = nil
		lastClause = nil
	}
	for i, raw := range lines {
		ln := i + 1
		t := strings.TrimSpace(raw)
		if !strings.HasPrefix(t, "//@") {
			continue
		}
		body := strings.TrimSpace(strings.TrimPrefix(t, "//@"))
		if body == "" || strings.HasPrefix(body, "#") {
			continue
		}
		// strip trailing comment " // ..."
		if idx := strings.Index(body, " // "); idx >= 0 {
			body = strings.TrimSpace(body[:idx])
		}
		m := kwRe.FindStringSubmatch(body)
		if m == nil || !clauseKeywords[m[1]] {
			// continuation
			if last == nil {
				return fmt.Errorf("%s:%d: continuation line without clause: %s", file, ln, body)
			}
			*last += " " + body
			continue
		}
		finishClause()
		kw := m[1]
		var props []string
		label := ""
		if m[2] != "" {
			for _, p := range strings.Split(strings.TrimPrefix(m[2], "@"), ",") {
				if strings.HasPrefix(p, "C") && len(p) >= 3 && p[1] >= '0' && p[1] <= '9' {
					props = append(props, p)
				} else {
					label = p
				}
			}
		}
		rest := strings.TrimSpace(body[len(m[0]):])
		mk := func(kind string) *Clause {
			c := &Clause{Kind: kind, Text: rest, Props: props, Label: label, File: file, Line: ln}
			last = &c.Text
			lastClause = c
			return c
		}
		switch kw {
		case "func":
			var pnames []string
			recvAlias := ""
			if op := strings.Index(rest, "("); op >= 0 && strings.HasSuffix(rest, ")") {
				// header: func T.M(recv; p0, p1, ...) -- the names the contract uses for the receiver and the
				// parameters, bound by POSITION (the code's own names stay usable as well)
				list := rest[op+1 : len(rest)-1]
				if semi := strings.Index(list, ";"); semi >= 0 {
					recvAlias = strings.TrimSpace(list[:semi])
					list = list[semi+1:]
				}
				if strings.TrimSpace(list) != "" {
					for _, n := range strings.Split(list, ",") {
						pnames = append(pnames, strings.TrimSpace(n))
					}
				}
				rest = strings.TrimSpace(rest[:op])
			}
			cur = &Contract{Pkg: pkg, FuncName: rest, Key: pkg + "." + rest, ParamNames: pnames, RecvAlias: recvAlias, Loops: map[int]*LoopSpec{}, MapRange: map[int]string{}, File: file, Line: ln}
			if _, dup := cs.Funcs[cur.Key]; dup {
				return fmt.Errorf("%s:%d: duplicate contract for %s", file, ln, cur.Key)
			}
			cs.Funcs[cur.Key] = cur
			cs.Order = append(cs.Order, cur.Key)
		case "lemma":
			// lemma name(params)
			op := strings.Index(rest, "(")
			if op < 0 || !strings.HasSuffix(rest, ")") {
				return fmt.Errorf("%s:%d: malformed lemma header", file, ln)
			}
			cur = &Contract{Pkg: pkg, FuncName: rest[:op], Key: pkg + ".lemma." + rest[:op], IsLemma: true, Params: rest[op+1 : len(rest)-1], Loops: map[int]*LoopSpec{}, MapRange: map[int]string{}, File: file, Line: ln}
			cs.Lemmas = append(cs.Lemmas, cur)
		case "props":
			if cur == nil {
				return fmt.Errorf("%s:%d: props outside func", file, ln)
			}
			cur.Props = append(cur.Props, strings.Fields(rest)...)
		case "requires":
			if cur == nil {
				return fmt.Errorf("%s:%d: requires outside func", file, ln)
			}
			cur.Requires = append(cur.Requires, mk("requires"))
		case "ensures":
			if cur == nil {
				return fmt.Errorf("%s:%d: ensures outside func", file, ln)
			}
			cur.Ensures = append(cur.Ensures, mk("ensures"))
		case "pure":
			cur.Pure = true
			// a pure function writes nothing but objects it allocates itself (checked like `assigns nothing`)
			cur.HasAssigns = true
		case "opaque":
			cur.Opaque = true
		case "errignorable":
			cur.ErrIgnorable = mk("errignorable")
		case "propagates":
			cur.Propagates = true
			cur.PropProps = props
		case "inline":
			cur.Inline = true
		case "trusted":
			cur.Trusted = true
		case "assigns":
			cur.HasAssigns = true
			if rest != "nothing" {
				for _, a := range strings.Split(rest, ",") {
					cur.Assigns = append(cur.Assigns, strings.TrimSpace(a))
				}
			}
		case "loop":
			f := strings.Fields(rest)
			if len(f) < 2 {
				return fmt.Errorf("%s:%d: malformed loop clause", file, ln)
			}
			n, err := strconv.Atoi(f[0])
			if err != nil {
				return fmt.Errorf("%s:%d: loop ordinal: %v", file, ln, err)
			}
			ls := cur.Loops[n]
			if ls == nil {
				ls = &LoopSpec{}
				cur.Loops[n] = ls
			}
			rest = strings.TrimSpace(strings.TrimPrefix(strings.TrimSpace(strings.TrimPrefix(rest, f[0])), f[1]))
			switch f[1] {
			case "invariant":
				c := mk("invariant")
				c.Loop = n
				ls.Invariants = append(ls.Invariants, c)
			case "decreases":
				c := mk("decreases")
				c.Loop = n
				ls.Decreases = c
			case "unroll":
				ls.Unroll = true
			case "exhaustive":
				c := mk("exhaustive")
				c.Loop = n
				ls.Exhaustive = c
			default:
				return fmt.Errorf("%s:%d: unknown loop clause %q", file, ln, f[1])
			}
		case "maprange":
			f := strings.Fields(rest)
			if len(f) < 2 {
				return fmt.Errorf("%s:%d: malformed maprange clause", file, ln)
			}
			n, err := strconv.Atoi(f[0])
			if err != nil {
				return fmt.Errorf("%s:%d: maprange ordinal: %v", file, ln, err)
			}
			cur.MapRange[n] = strings.Join(f[1:], " ")
		case "variant":
			cur.Variant = mk("variant")
			if len(cur.Variant.Props) == 0 {
				cur.Variant.Props = []string{"C13"}
			}
		case "forbid":
			// forbid[@C] callee reason...  -- the function (its expansion) never executes a call named callee
			if len(strings.Fields(rest)) < 2 {
				return fmt.Errorf("%s:%d: forbid needs a callee name and a reason", file, ln)
			}
			cur.Forbids = append(cur.Forbids, mk("forbid"))
		case "errdrop":
			// errdrop callee#n reason...  -- the error of that call is deliberately not propagated
			if len(strings.Fields(rest)) < 2 {
				return fmt.Errorf("%s:%d: errdrop needs a call site and a reason", file, ln)
			}
			cur.ErrDrops = append(cur.ErrDrops, rest)
		case "sortcall":
			f := strings.Fields(rest)
			if len(f) != 2 || f[1] != "total" {
				return fmt.Errorf("%s:%d: malformed sortcall clause (sortcall N total)", file, ln)
			}
			n, err := strconv.Atoi(f[0])
			if err != nil {
				return fmt.Errorf("%s:%d: sortcall ordinal: %v", file, ln, err)
			}
			if cur.SortCall == nil {
				cur.SortCall = map[int]string{}
			}
			cur.SortCall[n] = f[1]
		case "panics":
			if strings.HasPrefix(rest, "if ") {
				rest = strings.TrimPrefix(rest, "if ")
				cur.PanicsIf = mk("panics_if")
			}
		case "at":
			// at call callee#n assert expr
			f := strings.Fields(rest)
			if len(f) >= 3 && f[0] == "return" && f[1] == "assert" {
				rest = strings.TrimSpace(rest[strings.Index(rest, " assert ")+len(" assert "):])
				c := mk("assert")
				c.At = "return"
				cur.Asserts = append(cur.Asserts, c)
				break
			}
			if len(f) < 4 || f[0] != "call" || f[2] != "assert" {
				return fmt.Errorf("%s:%d: malformed at-clause (want: at call callee#n assert expr)", file, ln)
			}
			idx := strings.Index(rest, " assert ")
			rest = strings.TrimSpace(rest[idx+len(" assert "):])
			c := mk("assert")
			c.At = f[1]
			cur.Asserts = append(cur.Asserts, c)
		case "reveal":
			// reveal pkg.Name(params) = body     (definition of an abstract predicate, visible in this package only)
			op := strings.Index(rest, "(")
			cl := -1
			if op >= 0 {
				cl = matchParen(rest, op)
			}
			e := strings.Index(rest, "=")
			if op < 0 || cl < 0 || e < cl {
				return fmt.Errorf("%s:%d: malformed reveal", file, ln)
			}
			rv := &Reveal{Pkg: pkg, Target: strings.TrimSpace(rest[:op]), Params: rest[op+1 : cl]}
			rest = strings.TrimSpace(rest[e+1:])
			rv.Clause = mk("reveal")
			cs.Reveals = append(cs.Reveals, rv)
			cur = nil
		case "pred", "ghost", "abstract":
			// pred name(params) ret = body      |   ghost name(params) ret   |   abstract name(params) ret reads K1 K2 ...
			op := strings.Index(rest, "(")
			if op < 0 {
				return fmt.Errorf("%s:%d: malformed %s", file, ln, kw)
			}
			cl := matchParen(rest, op)
			if cl < 0 {
				return fmt.Errorf("%s:%d: unbalanced parameter list", file, ln)
			}
			p := &Pred{Pkg: pkg, Name: strings.TrimSpace(rest[:op]), Params: rest[op+1 : cl], Ghost: kw == "ghost" || kw == "abstract", Abstract: kw == "abstract", File: file, Line: ln}
			tail := strings.TrimSpace(rest[cl+1:])
			if kw == "pred" {
				e := strings.Index(tail, "=")
				if e < 0 {
					return fmt.Errorf("%s:%d: pred without body", file, ln)
				}
				p.Ret = strings.TrimSpace(tail[:e])
				p.Body = strings.TrimSpace(tail[e+1:])
				last = &p.Body
			} else if kw == "abstract" {
				f := strings.Fields(tail)
				if len(f) < 2 || f[1] != "reads" {
					return fmt.Errorf("%s:%d: malformed abstract predicate (want: abstract name(params) bool reads K1 K2 ...)", file, ln)
				}
				p.Ret = f[0]
				p.Reads = f[2:]
				lastReads = p
			} else {
				p.Ret = tail
			}
			cs.Preds = append(cs.Preds, p)
			cur = nil
		case "typeinv":
			// typeinv Type(t) = expr
			op := strings.Index(rest, "(")
			cl := strings.Index(rest, ")")
			e := strings.Index(rest, "=")
			if op < 0 || cl < op || e < cl {
				return fmt.Errorf("%s:%d: malformed typeinv", file, ln)
			}
			ti := &TypeInv{Pkg: pkg, Type: strings.TrimSpace(rest[:op]), Var: strings.TrimSpace(rest[op+1 : cl])}
			rest = strings.TrimSpace(rest[e+1:])
			ti.Clause = mk("typeinv")
			cs.TypeInvs = append(cs.TypeInvs, ti)
			cur = nil
		case "immutable":
			// immutable Type Field1 Field2 ...
			f := strings.Fields(rest)
			if len(f) < 2 {
				return fmt.Errorf("%s:%d: malformed immutable clause", file, ln)
			}
			for _, fld := range f[1:] {
				cs.Immutable["F:"+pkg+"."+f[0]+"."+fld] = true
			}
			cur = nil
		case "reads":
			if lastReads == nil {
				return fmt.Errorf("%s:%d: reads without abstract predicate", file, ln)
			}
			lastReads.Reads = append(lastReads.Reads, strings.Fields(rest)...)
		case "valueptr":
			for _, f := range strings.Fields(rest) {
				cs.ValuePtr[f] = true
			}
		case "axiom":
			cs.Axioms = append(cs.Axioms, mk("axiom"))
		case "note", "end":
		}
	}
	_ = lastClause
	return nil
}

func matchParen(s string, open int) int {
	d := 0
	for i := open; i < len(s); i++ {
		switch s[i] {
		case '(':
			d++
		case ')':
			d--
			if d == 0 {
				return i
			}
		}
	}
	return -1
}

// ---------------------------------------------------------------------------
// Specification text -> Go expression.
//   a ==> b                      implies(a, b)         (lowest precedence, right assoc.)
//   forall i int :: P            forall(func(i int) bool { return P })
//   exists i int :: P            exists(func(i int) bool { return P })

func specToGo(s string) (string, error) {
	s = strings.TrimSpace(s)
	if s == "" {
		return "", fmt.Errorf("empty specification expression")
	}
	for _, q := range []string{"forall", "exists"} {
		if strings.HasPrefix(s, q+" ") {
			idx := strings.Index(s, "::")
			if idx < 0 {
				return "", fmt.Errorf("quantifier without '::' in %q", s)
			}
			binders := strings.TrimSpace(s[len(q):idx])
			body, err := specToGo(s[idx+2:])
			if err != nil {
				return "", err
			}
			qn := q
			if n := len(splitTopLevel(binders, ',')); n > 1 {
				qn = fmt.Sprintf("%s%d", q, n)
			}
			return fmt.Sprintf("%s(func(%s) bool { return %s })", qn, binders, body), nil
		}
	}
	// top-level ==>
	if i := topLevelIndex(s, "==>"); i >= 0 {
		a, err := specToGo(s[:i])
		if err != nil {
			return "", err
		}
		b, err := specToGo(s[i+3:])
		if err != nil {
			return "", err
		}
		return "implies(" + a + ", " + b + ")", nil
	}
	// recurse into parenthesised groups
	var out strings.Builder
	i := 0
	for i < len(s) {
		c := s[i]
		switch c {
		case '"', '`':
			j := i + 1
			for j < len(s) && s[j] != c {
				if s[j] == '\\' && c == '"' {
					j++
				}
				j++
			}
			if j >= len(s) {
				return "", fmt.Errorf("unterminated string in %q", s)
			}
			out.WriteString(s[i : j+1])
			i = j + 1
		case '(':
			j := matchParen(s, i)
			if j < 0 {
				return "", fmt.Errorf("unbalanced parentheses in %q", s)
			}
			inner := s[i+1 : j]
			parts := splitTopLevel(inner, ',')
			if ti := strings.TrimSpace(inner); strings.HasPrefix(ti, "forall ") || strings.HasPrefix(ti, "exists ") {
				parts = []string{inner}
			}
			out.WriteByte('(')
			for k, p := range parts {
				if k > 0 {
					out.WriteString(", ")
				}
				if strings.TrimSpace(p) == "" {
					continue
				}
				g, err := specToGo(p)
				if err != nil {
					return "", err
				}
				out.WriteString(g)
			}
			out.WriteByte(')')
			i = j + 1
		default:
			out.WriteByte(c)
			i++
		}
	}
	return out.String(), nil
}

func topLevelIndex(s, tok string) int {
	d := 0
	for i := 0; i < len(s); i++ {
		switch s[i] {
		case '"', '`':
			q := s[i]
			i++
			for i < len(s) && s[i] != q {
				if s[i] == '\\' && q == '"' {
					i++
				}
				i++
			}
		case '(', '[', '{':
			d++
		case ')', ']', '}':
			d--
		default:
			if d == 0 && strings.HasPrefix(s[i:], tok) {
				return i
			}
		}
	}
	return -1
}

func splitTopLevel(s string, sep byte) []string {
	var parts []string
	d := 0
	start := 0
	for i := 0; i < len(s); i++ {
		switch s[i] {
		case '"', '`':
			q := s[i]
			i++
			for i < len(s) && s[i] != q {
				if s[i] == '\\' && q == '"' {
					i++
				}
				i++
			}
		case '(', '[', '{':
			d++
		case ')', ']', '}':
			d--
		default:
			if d == 0 && s[i] == sep {
				parts = append(parts, s[start:i])
				start = i + 1
			}
		}
	}
	parts = append(parts, s[start:])
	return parts
}
