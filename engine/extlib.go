package main

// Assumed contracts of code outside the goverter module (the trusted base).
// Every external function used by a verified function is recorded in the
// evidence ("trusted_base").
//
// Default: an external function is an uninterpreted, deterministic function of
// its arguments that does not write goverter's data structures. The table below
// refines this for the functions whose meaning matters to a property.

import (
	"fmt"
	"go/ast"
	"go/constant"
	"go/types"
	"strings"
)

func extKey(f *types.Func) string {
	if f.Pkg() == nil {
		// methods of universe types (error.Error)
		sig := f.Type().(*types.Signature)
		if r := sig.Recv(); r != nil {
			return "universe." + typeKey(r.Type()) + "." + f.Name()
		}
		return "universe." + f.Name()
	}
	sig := f.Type().(*types.Signature)
	p := shortPkg(f.Pkg().Path())
	if r := sig.Recv(); r != nil {
		t := r.Type()
		if pt, ok := t.(*types.Pointer); ok {
			t = pt.Elem()
		}
		if n, ok := types.Unalias(t).(*types.Named); ok {
			return p + "." + n.Obj().Name() + "." + f.Name()
		}
		return p + ".?." + f.Name()
	}
	return p + "." + f.Name()
}

// impure external functions: results are unconstrained on every call
var extImpure = map[string]bool{
	"os.Exit": true, "os.MkdirAll": true, "os.WriteFile": true, "os.ReadFile": true, "os.Getwd": true,
	"golang.org/x/tools/go/packages.Load": true,
	"runtime/debug.ReadBuildInfo":        true,
	"bufio.Scanner.Scan":                 true,
	"flag.FlagSet.Parse":                 true,
	"fmt.Println":                        true, "fmt.Fprintln": true, "fmt.Fprint": true, "fmt.Fprintf": true, "fmt.Printf": true,
	"path/filepath.Abs": true,
	"bytes.Buffer.String": true, "bytes.Buffer.Bytes": true,
	"jen.File.Render": true,
}

// external functions that return a non-nil reference
func extNonNil(key string) bool {
	switch key {
	case "fmt.Errorf", "errors.New", "regexp.MustCompile", "go/types.NewPointer", "go/types.NewFunc", "go/types.NewSlice",
		"flag.NewFlagSet", "bufio.NewScanner", "strings.NewReader", "flag.FlagSet.String", "flag.FlagSet.Bool",
		"jen.NewFile", "jen.NewFilePath", "jen.NewFilePathName":
		return true
	}
	if strings.HasPrefix(key, "jen.") {
		return true
	}
	if strings.HasPrefix(key, "go/types.") {
		return !extMayBeNil[key]
	}
	return false
}

// go/types accessors that may return nil (everything else in go/types is assumed non-nil
// for the well-formed types produced by a successful type check)
var extMayBeNil = map[string]bool{
	"go/types.object.Pkg": true, "go/types.Object.Pkg": true, "go/types.TypeName.Pkg": true, "go/types.Var.Pkg": true,
	"go/types.Func.Pkg": true, "go/types.Const.Pkg": true,
	"go/types.Scope.Lookup": true, "go/types.Scope.Parent": true, "go/types.Scope.LookupParent": true,
	"go/types.Signature.Recv": true, "go/types.Signature.TypeParams": true, "go/types.Signature.RecvTypeParams": true,
	"go/types.Named.TypeArgs": true, "go/types.Named.TypeParams": true, "go/types.Signature.Params": true, "go/types.Signature.Results": true,
	"go/types.Unalias": true, "go/types.object.Parent": true, "go/types.Object.Parent": true,
	"go/types.Package.Scope": false,
}

// external methods that are safe to call on a nil receiver
var extNilSafeRecv = map[string]bool{
	"go/types.Tuple.Len": true, "go/types.TypeParamList.Len": true, "go/types.TypeList.Len": true,
	"go/types.Tuple.At": false,
}

func (u *Unit) callExternal(call *ast.CallExpr, f *types.Func, recv *Val, args []Val, st *State) []Val {
	key := extKey(f)
	u.usedExt[key] = true
	if res, ok := u.extSpecial(call, key, f, recv, args, st); ok {
		return res
	}
	res := u.callExternalDefault(call, key, f, recv, args, st)
	if extImpure[key] && !u.inSpec {
		u.bumpEpoch(st)
	}
	return res
}

// external accessors whose value depends on state changed by impure external calls
var extEpoch = map[string]bool{
	"bufio.Scanner.Text": true, "bufio.Scanner.Bytes": true, "bufio.Scanner.Err": true,
	"flag.FlagSet.Args": true, "flag.FlagSet.NArg": true, "flag.FlagSet.Arg": true,
}

func constantString(v constant.Value) string {
	if v.Kind() == constant.String {
		return constant.StringVal(v)
	}
	return ""
}

// formatPieces: the literal text between the verbs of a format string (pieces of length >= 4)
func formatPieces(format string) []string {
	var out []string
	var cur strings.Builder
	flush := func() {
		if cur.Len() >= 4 {
			out = append(out, cur.String())
		}
		cur.Reset()
	}
	for i := 0; i < len(format); i++ {
		if format[i] == '%' {
			if i+1 < len(format) && format[i+1] == '%' {
				cur.WriteByte('%')
				i++
				continue
			}
			flush()
			// skip flags/width up to the verb
			i++
			for i < len(format) && strings.IndexByte("+-# 0123456789.[]*", format[i]) >= 0 {
				i++
			}
			continue
		}
		cur.WriteByte(format[i])
	}
	flush()
	return out
}

func (u *Unit) callExternalDefault(call *ast.CallExpr, key string, f *types.Func, recv *Val, args []Val, st *State) []Val {
	sig := f.Type().(*types.Signature)
	var res []Val
	var as, ss []string
	if recv != nil {
		as = append(as, recv.T)
		ss = append(ss, recv.S)
	}
	for _, a := range args {
		as = append(as, a.T)
		ss = append(ss, a.S)
	}
	n := sig.Results().Len()
	ct := types.Type(nil)
	if call != nil {
		ct = typeOf(u.info, call)
	}
	for i := 0; i < n; i++ {
		t := sig.Results().At(i).Type()
		if containsTypeParam(t) && ct != nil {
			if tup, ok := ct.(*types.Tuple); ok {
				t = tup.At(i).Type()
			} else if n == 1 {
				t = ct
			}
		}
		srt := u.reg.sortOf(t)
		var v Val
		if extImpure[key] {
			v = Val{T: u.reg.fresh("ext_"+f.Name(), srt), S: srt, GT: t}
		} else if extEpoch[key] {
			// a reader of external mutable state: deterministic between two impure external calls
			name := fmt.Sprintf("ext_%s_%d", sanitize(key), i) + sortSuffix(append(append([]string{}, ss...), "Int"))
			u.reg.declare(name, append(append([]string{}, ss...), "Int"), srt)
			v = Val{T: app(name, append(append([]string{}, as...), st.epoch)...), S: srt, GT: t}
		} else {
			// the same go/types accessor reached through the Object/Type interface or through a concrete
			// type is one function
			name := fmt.Sprintf("ext_%s_%d", sanitize(canonicalExtKey(key)), i)
			// overloads by argument sorts (generic or variadic functions)
			name += sortSuffix(ss)
			u.reg.declare(name, ss, srt)
			v = Val{T: app(name, as...), S: srt, GT: t}
			if key == "go/types.Unalias" && len(ss) == 1 && goTypesPkg != nil {
				// Unalias is the identity on everything that is not an alias, and preserves nil-ness
				u.reg.declare("dyn", []string{"Int"}, "Int")
				u.reg.axiom(fmt.Sprintf("(forall ((x Int)) (! (=> (not (= (dyn x) %s)) (= (%s x) x)) :pattern ((%s x))))", u.reg.tagOf(aliasPtrType()), name, name))
				u.reg.axiom(fmt.Sprintf("(forall ((x Int)) (! (= (= (%s x) 0) (= x 0)) :pattern ((%s x))))", name, name))
			}
			if srt == "Int" && isCountName(f.Name()) && len(ss) > 0 {
				// lengths and counts are non-negative (for all arguments); the length of a nil tuple/list is 0
				var bs, xs []string
				for k, s0 := range ss {
					bs = append(bs, fmt.Sprintf("(x%d %s)", k, s0))
					xs = append(xs, fmt.Sprintf("x%d", k))
				}
				u.reg.axiom(fmt.Sprintf("(forall (%s) (! (>= %s 0) :pattern (%s)))", strings.Join(bs, " "), app(name, xs...), app(name, xs...)))
				if len(ss) == 1 && ss[0] == "Int" && extNilSafeRecv[key] {
					u.reg.axiom("(= (" + name + " 0) 0)")
				}
			}
			if u.reg.isSlice(srt) {
				// results of external functions are well-formed slices (for all arguments)
				if len(ss) == 0 {
					u.reg.axiom("(>= (len_" + srt + " " + name + ") 0)")
				} else {
					var bs, xs []string
					for k, s0 := range ss {
						bs = append(bs, fmt.Sprintf("(x%d %s)", k, s0))
						xs = append(xs, fmt.Sprintf("x%d", k))
					}
					u.reg.axiom(fmt.Sprintf("(forall (%s) (! (>= (len_%s %s) 0) :pattern (%s)))", strings.Join(bs, " "), srt, app(name, xs...), app(name, xs...)))
				}
			}
		}
		if srt == "Int" && u.isRefType(t) && extNonNil(key) && !(isErrorLike(t) && i == n-1 && n > 1) {
			if !u.inSpec {
				st.assume("(> " + v.T + " 0)")
			} else {
				u.reg.note("non-nil result of " + key + " not assumed inside specifications")
			}
		}
		if u.reg.isSlice(srt) && !u.inSpec {
			u.sliceFacts(st, v)
		}
		// errors created by external code have a dynamic type that is no goverter type
		if !u.inSpec && u.isErrorType(t) && !extImpure[key] {
			st.assume(implies(not(eq(v.T, "0")), eq(u.reg.dyn(v.T), u.reg.tagOfName("ext-error:"+key))))
		}
		// go/types: a types.Type handed out by an accessor is one of the value-type kinds (or an alias),
		// never a *types.Tuple / *types.Union
		if !u.inSpec && strings.HasPrefix(key, "go/types.") && isGoTypesType(t) {
			st.assume(implies(not(eq(v.T, "0")), u.goValueTypeTag(v.T, true)))
			if key == "go/types.Unalias" && len(args) == 1 {
				st.assume(eq(eq(v.T, "0"), eq(args[0].T, "0")))
				st.assume(implies(not(eq(v.T, "0")), u.goValueTypeTag(v.T, false)))
				st.assume(implies(not(eq(u.reg.dyn(args[0].T), u.reg.tagOf(aliasPtrType()))), eq(v.T, args[0].T)))
			}
			if key == "go/types.Named.Underlying" {
				st.assume(not(eq(u.reg.dyn(v.T), u.reg.tagOf(namedPtrType()))))
				st.assume(u.goValueTypeTag(v.T, false))
			}
		}
		res = append(res, v)
	}
	if !u.inSpec && n >= 1 && (call == nil || !u.errDropSites[call]) {
		// error results of external calls -- (value, error) as well as a lone error (os.WriteFile, jen.File.Render)
		// -- take part in the "no error is dropped" check
		u.recordErrs(st, res, sig, key)
	}
	return res
}

func sortSuffix(ss []string) string {
	if len(ss) == 0 {
		return ""
	}
	h := 0
	for _, s := range ss {
		for _, c := range s {
			h = (h*31 + int(c)) % 1000003
		}
		h = (h*31 + 7) % 1000003
	}
	return fmt.Sprintf("_%d", h)
}

func mkBool(t string) []Val { return []Val{{T: t, S: "Bool", GT: tBool}} }
func mkStr(t string) []Val  { return []Val{{T: t, S: "String", GT: tString}} }
func mkInt(t string) []Val  { return []Val{{T: t, S: "Int", GT: tInt}} }

// extSpecial gives precise meaning to the external functions a property depends on.
func (u *Unit) extSpecial(call *ast.CallExpr, key string, f *types.Func, recv *Val, args []Val, st *State) ([]Val, bool) {
	switch key {
	case "strings.HasPrefix":
		return mkBool("(str.prefixof " + args[1].T + " " + args[0].T + ")"), true
	case "strings.HasSuffix":
		return mkBool("(str.suffixof " + args[1].T + " " + args[0].T + ")"), true
	case "strings.Contains":
		return mkBool("(str.contains " + args[0].T + " " + args[1].T + ")"), true
	case "strings.TrimPrefix":
		s, p := args[0].T, args[1].T
		return mkStr(ite("(str.prefixof "+p+" "+s+")", "(str.substr "+s+" (str.len "+p+") (- (str.len "+s+") (str.len "+p+")))", s)), true
	case "strings.TrimSuffix":
		s, p := args[0].T, args[1].T
		return mkStr(ite("(str.suffixof "+p+" "+s+")", "(str.substr "+s+" 0 (- (str.len "+s+") (str.len "+p+")))", s)), true
	case "strings.SplitN":
		// modelled for n == 2 (split at the first separator)
		if args[2].T == "2" {
			srt := u.reg.sortOf(types.NewSlice(tString))
			r := u.reg.fresh("splitn", srt)
			s0, sep := args[0].T, args[1].T
			has := "(str.contains " + s0 + " " + sep + ")"
			idx := "(str.indexof " + s0 + " " + sep + " 0)"
			e0 := "(select (arr_" + srt + " " + r + ") 0)"
			e1 := "(select (arr_" + srt + " " + r + ") 1)"
			st.assume(not("(nil_" + srt + " " + r + ")"))
			st.assume(implies(not(eq(sep, `""`)), ite(has,
				and(eq("(len_"+srt+" "+r+")", "2"), eq(e0, "(str.substr "+s0+" 0 "+idx+")"), eq(e1, "(str.substr "+s0+" (+ "+idx+" (str.len "+sep+")) (str.len "+s0+"))")),
				and(eq("(len_"+srt+" "+r+")", "1"), eq(e0, s0)))))
			st.assume("(>= (len_" + srt + " " + r + ") 0)")
			return []Val{{T: r, S: srt, GT: types.NewSlice(tString)}}, true
		}
		return nil, false
	case "path/filepath.Abs":
		// the result of a successful Abs is an absolute path
		res := u.callExternalDefault(call, key, f, recv, args, st)
		if len(res) == 2 {
			name := fmt.Sprintf("ext_%s_%d", sanitize("path/filepath.IsAbs"), 0) + sortSuffix([]string{"String"})
			u.reg.declare(name, []string{"String"}, "Bool")
			st.assume(implies(eq(res[1].T, "0"), "("+name+" "+res[0].T+")"))
		}
		return res, true
	case "strings.Cut":
		s0, sep := args[0].T, args[1].T
		has := "(str.contains " + s0 + " " + sep + ")"
		idx := "(str.indexof " + s0 + " " + sep + " 0)"
		return []Val{
			mkStr(ite(has, "(str.substr "+s0+" 0 "+idx+")", s0))[0],
			mkStr(ite(has, "(str.substr "+s0+" (+ "+idx+" (str.len "+sep+")) (str.len "+s0+"))", `""`))[0],
			{T: has, S: "Bool", GT: tBool},
		}, true
	case "strings.Split":
		res := u.callExternalDefault(call, key, f, recv, args, st)
		if !u.inSpec {
			r := res[0]
			st.assume(implies(not(eq(args[1].T, `""`)), "(>= (len_"+r.S+" "+r.T+") 1)"))
			st.assume(implies(and(not(eq(args[1].T, `""`)), not("(str.contains "+args[0].T+" "+args[1].T+")")),
				and(eq("(len_"+r.S+" "+r.T+")", "1"), eq("(select (arr_"+r.S+" "+r.T+") 0)", args[0].T))))
		}
		return res, true
	case "strings.Fields":
		res := u.callExternalDefault(call, key, f, recv, args, st)
		if !u.inSpec {
			r := res[0]
			st.assume("(>= (len_" + r.S + " " + r.T + ") 0)")
			// every field is a non-empty substring of the argument
			st.assume(fmt.Sprintf("(forall ((j Int)) (! (=> (and (<= 0 j) (< j (len_%s %s))) (and (str.contains %s (select (arr_%s %s) j)) (> (str.len (select (arr_%s %s) j)) 0))) :pattern ((select (arr_%s %s) j))))", r.S, r.T, args[0].T, r.S, r.T, r.S, r.T, r.S, r.T))
		}
		return res, true
	case "strings.Repeat":
		// panics for negative counts
		if !u.noSafety && !u.inSpec {
			u.oblige(st, u.site(call, "call#strings.Repeat")+"#pre#1", "call-pre", "(>= "+args[1].T+" 0)", []string{"C13"}, nil, "strings.Repeat panics on a negative count", call)
			st.assume("(>= " + args[1].T + " 0)")
		}
		return nil, false
	case "fmt.Sprintf":
		// the result contains every literal piece of a constant format string
		if call != nil && len(call.Args) > 0 {
			if tv, ok := u.info.Types[call.Args[0]]; ok && tv.Value != nil && !u.inSpec {
				format := constantString(tv.Value)
				res := u.callExternalDefault(call, key, f, recv, args, st)
				seenTok := map[string]bool{}
				for _, piece := range formatPieces(format) {
					st.assume("(str.contains " + res[0].T + " " + strLit(piece) + ")")
					for _, tok := range strings.Fields(piece) {
						if len(tok) >= 8 && !seenTok[tok] {
							seenTok[tok] = true
							st.assume("(str.contains " + res[0].T + " " + strLit(tok) + ")")
						}
					}
				}
				return res, true
			}
		}
		return nil, false
	case "universe.error.Error":
		return nil, false
	case "os.Exit":
		// terminates the process: record the ghost exit code and stop the path
		u.recordExit(st, args[0], call)
		st.assume("false")
		return nil, true
	case "sort.Strings", "sort.Slice":
		// in-place permutation of the slice argument
		if call != nil && key == "sort.Slice" && !u.inSpec {
			u.sortTotalCheck(call, st)
		}
		if call != nil {
			saved0 := u.noSafety
			u.noSafety = true
			a := u.evalExpr(call.Args[0], st)
			u.noSafety = saved0
			srt := a.S
			nv := Val{T: u.reg.fresh("sorted", srt), S: srt, GT: a.GT}
			st.assume(eq("(len_"+srt+" "+nv.T+")", "(len_"+srt+" "+a.T+")"))
			st.assume(eq("(nil_"+srt+" "+nv.T+")", "(nil_"+srt+" "+a.T+")"))
			saved := u.noSafety
			u.noSafety = true
			u.assignTo(call.Args[0], nv, st)
			u.noSafety = saved
		}
		return nil, true
	case "flag.FlagSet.Var", "flag.FlagSet.SetOutput", "bufio.Scanner.Buffer":
		return nil, true
	case "math.Max":
		return []Val{{T: ite("(>= "+args[0].T+" "+args[1].T+")", args[0].T, args[1].T), S: "Real", GT: types.Typ[types.Float64]}}, true
	}
	return nil, false
}

// recordExit: ghost exit code for cli.Run (C17)
func (u *Unit) recordExit(st *State, code Val, call *ast.CallExpr) {
	u.exits = append(u.exits, exitRecord{pc: append([]string(nil), st.pc...), code: code.T, site: u.site(call, "exit"), st: st.clone()})
}

type exitRecord struct {
	pc   []string
	code string
	site string
	st   *State
}

func isGoTypesType(t types.Type) bool {
	n, ok := types.Unalias(t).(*types.Named)
	return ok && n.Obj().Pkg() != nil && n.Obj().Pkg().Path() == "go/types" && n.Obj().Name() == "Type"
}

var goTypesPkg *types.Package

func goTypesPtr(name string) types.Type {
	if goTypesPkg == nil {
		return nil
	}
	tn, _ := goTypesPkg.Scope().Lookup(name).(*types.TypeName)
	if tn == nil {
		return nil
	}
	return types.NewPointer(tn.Type())
}

func aliasPtrType() types.Type { return goTypesPtr("Alias") }
func namedPtrType() types.Type { return goTypesPtr("Named") }

var goValueKinds = []string{"Pointer", "Basic", "Map", "Slice", "Array", "Named", "Struct", "Interface", "Signature", "Chan", "TypeParam"}

// goValueTypeTag: dyn(x) is one of the value-type kinds (optionally also *types.Alias)
func (u *Unit) goValueTypeTag(x string, allowAlias bool) string {
	var alts []string
	for _, k := range goValueKinds {
		alts = append(alts, eq(u.reg.dyn(x), u.reg.tagOf(goTypesPtr(k))))
	}
	if allowAlias {
		alts = append(alts, eq(u.reg.dyn(x), u.reg.tagOf(aliasPtrType())))
	}
	return or(alts...)
}

func isCountName(n string) bool {
	return n == "Len" || strings.HasPrefix(n, "Num")
}

var goTypesObjectRecv = map[string]bool{"object": true, "Object": true, "Var": true, "Func": true, "TypeName": true, "Const": true, "PkgName": true, "Label": true, "Builtin": true, "Nil": true}
var goTypesObjectMeth = map[string]bool{"Name": true, "Pkg": true, "Type": true, "Exported": true, "Pos": true, "Parent": true, "Id": true}
var goTypesTypeRecv = map[string]bool{"Type": true, "Named": true, "Basic": true, "Pointer": true, "Slice": true, "Array": true, "Map": true, "Struct": true, "Interface": true, "Signature": true, "Chan": true, "TypeParam": true, "Alias": true, "Tuple": true}

func canonicalExtKey(key string) string {
	if !strings.HasPrefix(key, "go/types.") {
		return key
	}
	parts := strings.Split(strings.TrimPrefix(key, "go/types."), ".")
	if len(parts) != 2 {
		return key
	}
	if goTypesObjectRecv[parts[0]] && goTypesObjectMeth[parts[1]] {
		return "go/types.Object." + parts[1]
	}
	if goTypesTypeRecv[parts[0]] && (parts[1] == "Underlying" || parts[1] == "String") {
		return "go/types.Type." + parts[1]
	}
	return key
}

// sortTotalCheck: `sortcall N total` -- the comparator of the N-th sort.Slice call decides every pair of
// distinct elements (exactly one of less(i,j), less(j,i)): sort.Slice is not stable, so a tie between two
// elements that came out of a map range would leave their order to the map's iteration order (C09).
func (u *Unit) sortTotalCheck(call *ast.CallExpr, st *State) {
	u.sortOrd++
	ord := u.sortOrd
	if u.con == nil || u.con.SortCall[ord] != "total" || len(call.Args) != 2 || len(u.inlineStack) > len(u.spliceDecls) {
		return
	}
	lit, ok := ast.Unparen(call.Args[1]).(*ast.FuncLit)
	if !ok {
		u.oblige(st, fmt.Sprintf("sort#%d#total", ord), "commute", "false", []string{"C09"}, nil, "comparator of sort.Slice is not a function literal", call)
		return
	}
	savedSafety := u.noSafety
	u.noSafety = true
	defer func() { u.noSafety = savedSafety }()
	base := st.clone()
	xs := u.evalExpr(call.Args[0], base)
	if !u.reg.isSlice(xs.S) {
		return
	}
	a := Val{T: u.reg.fresh("si", "Int"), S: "Int", GT: types.Typ[types.Int]}
	b := Val{T: u.reg.fresh("sj", "Int"), S: "Int", GT: types.Typ[types.Int]}
	ln := "(len_" + xs.S + " " + xs.T + ")"
	base.assume(and("(<= 0 "+a.T+")", "(< "+a.T+" "+ln+")", "(<= 0 "+b.T+")", "(< "+b.T+" "+ln+")"))
	ea := "(select (arr_" + xs.S + " " + xs.T + ") " + a.T + ")"
	eb := "(select (arr_" + xs.S + " " + xs.T + ") " + b.T + ")"
	base.assume(not(eq(ea, eb)))
	c := &closure{lit: lit}
	r1 := u.inlineClosure(c, []Val{a, b}, base, "less")
	r2 := u.inlineClosure(c, []Val{b, a}, base, "less")
	if len(r1) != 1 || len(r2) != 1 {
		return
	}
	u.oblige(base, fmt.Sprintf("sort#%d#total", ord), "commute", not(eq(r1[0].T, r2[0].T)), []string{"C09"}, nil,
		"the comparator decides every pair of distinct elements of "+exprString(call.Args[0])+" (no tie is left to the incoming order)", call)
}
