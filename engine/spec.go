package main

// Evaluation of specification clauses. Clauses were turned into Go functions in
// the overlay-only synthetic file and type-checked by go/types; they are
// evaluated by the same symbolic evaluator as program expressions.

import (
	"fmt"
	"go/ast"
	"go/types"
	"strings"
)

func (u *Unit) clauseProps(c *Clause) []string {
	if c != nil && len(c.Props) > 0 {
		return c.Props
	}
	if u.con != nil {
		return u.con.Props
	}
	return nil
}

func (u *Unit) specFn(c *Clause) *SpecFn {
	sf := u.prog.SpecFns[c.SpecFunc]
	if sf == nil || sf.Decl == nil {
		u.fail("internal: specification function for clause %s:%d not found", c.File, c.Line)
	}
	return sf
}

// entryBindings: role values for the function under verification.
func (u *Unit) entryBindings(results []Val) *roleVals {
	rv := &roleVals{results: results}
	if u.entryRecv != nil {
		rv.recv = u.entryRecv
	}
	rv.params = u.entryParams
	return rv
}

// localBindings: for loop invariants and in-body assertions the parameters and
// locals denote their current values.
func (u *Unit) localBindings(c *Clause, st *State, extra map[string]Val) map[string]Val {
	m := map[string]Val{}
	for k, v := range extra {
		m[k] = v
	}
	return m
}

func (u *Unit) evalClauseInt(c *Clause, st *State, local map[string]Val) string {
	return u.evalClauseVal(c, st, u.entry, local, nil).T
}

func (u *Unit) evalClause(c *Clause, st, old *State, local map[string]Val, rv *roleVals) string {
	v := u.evalClauseVal(c, st, old, local, rv)
	if v.S != "Bool" {
		u.fail("clause %s:%d is not boolean", c.File, c.Line)
	}
	return v.T
}

func (u *Unit) evalClauseVal(c *Clause, st, old *State, local map[string]Val, rv *roleVals) Val {
	sf := u.specFn(c)
	// whose clause is being evaluated (reached() only has a meaning inside the function that owns the clause)
	savedOwner := u.evalOwner
	u.evalOwner = sf.Owner
	defer func() { u.evalOwner = savedOwner }()
	specPkg := u.prog.Pkgs[sf.Pkg]
	bind := map[*types.Var]Val{}
	oldBind := map[*types.Var]Val{}
	useCurrent := c.Kind == "invariant" || c.Kind == "decreases" || c.Kind == "assert"
	if rv == nil && !useCurrent {
		rv = u.entryBindings(nil)
	}
	if rv != nil && useCurrent {
		// at-return assertions: only the results come from rv, everything else is current
		rv = &roleVals{results: rv.results}
	}
	// parameters of the spec function in order
	var pvars []*types.Var
	for _, f := range sf.Decl.Type.Params.List {
		for _, n := range f.Names {
			v, _ := specPkg.TypesInfo.Defs[n].(*types.Var)
			pvars = append(pvars, v)
		}
	}
	if len(pvars) != len(sf.Roles) {
		u.fail("internal: role/parameter mismatch for clause %s:%d", c.File, c.Line)
	}
	for i, role := range sf.Roles {
		pv := pvars[i]
		kind := role[:strings.Index(role, ":")]
		name := role[strings.Index(role, ":")+1:]
		var val Val
		have := false
		switch {
		case kind == "recv":
			if useCurrent {
				if v, ok := u.currentParam(st, -1); ok {
					val, have = v, true
				} else if v, ok := u.lookupLocal(st, name, true); ok {
					val, have = v, true
				} else if u.entryRecv != nil {
					val, have = *u.entryRecv, true
				}
			} else if rv != nil && rv.recv != nil {
				val, have = *rv.recv, true
			}
			if useCurrent && u.entryRecv != nil {
				oldBind[pv] = *u.entryRecv
			}
		case strings.HasPrefix(kind, "param"):
			var idx int
			fmt.Sscanf(kind, "param%d", &idx)
			if useCurrent {
				if v, ok := u.currentParam(st, idx); ok {
					val, have = v, true
				} else if v, ok := u.lookupLocal(st, name, true); ok {
					val, have = v, true
				}
				if idx < len(u.entryParams) {
					oldBind[pv] = u.entryParams[idx]
					if !have {
						val, have = u.entryParams[idx], true
					}
				}
			} else if rv != nil && idx < len(rv.params) {
				val, have = rv.params[idx], true
			}
		case strings.HasPrefix(kind, "result"):
			var idx int
			fmt.Sscanf(kind, "result%d", &idx)
			if rv != nil && idx < len(rv.results) {
				val, have = rv.results[idx], true
			} else if useCurrent {
				if v, ok := u.lookupLocal(st, name, false); ok {
					val, have = v, true
				}
			}
		case kind == "local":
			if v, ok := u.lookupLocal(st, name, false); ok {
				val, have = v, true
			}
		case kind == "callarg":
			if v, ok := local[name]; ok {
				val, have = v, true
			}
		case kind == "ghost":
			if v, ok := local[name]; ok {
				val, have = v, true
			} else if name == "idx" && len(u.ghostIdx) > 0 {
				// inside the body of a range loop: the index of the current iteration
				val, have = u.ghostIdx[len(u.ghostIdx)-1], true
			}
		case kind == "bind":
			// typeinv / lemma parameter bound by name
			if v, ok := local[name]; ok {
				val, have = v, true
			}
		}
		if pv == nil {
			continue
		}
		if have {
			bind[pv] = val
			if _, ok := oldBind[pv]; !ok {
				oldBind[pv] = val
			}
		}
	}
	return u.evalSpecBody(sf, specPkg.TypesInfo, bind, oldBind, st, old)
}

// lookupLocal finds the current value of a local (or parameter) by name.
func (u *Unit) lookupLocal(st *State, name string, paramOnly bool) (Val, bool) {
	// inside a helper that is executed in place the helper's names come first, then those of the functions it was
	// reached through, outermost last (the same order in which localsParams offered them to the clause)
	var decls []*ast.FuncDecl
	for i := len(u.spliceDecls) - 1; i >= 0; i-- {
		decls = append(decls, u.spliceDecls[i])
	}
	if u.fi != nil {
		decls = append(decls, u.fi.Decl)
	} else {
		decls = append(decls, nil)
	}
	for _, d := range decls {
		var best *types.Var
		for v := range st.env {
			if v.Name() != name {
				continue
			}
			if d != nil && (v.Pos() < d.Pos() || v.Pos() > d.End()) {
				continue
			}
			if best == nil || v.Pos() > best.Pos() {
				best = v
			}
		}
		if best != nil {
			return st.env[best], true
		}
	}
	return Val{}, false
}

func (u *Unit) evalSpecBody(sf *SpecFn, info *types.Info, bind, oldBind map[*types.Var]Val, st, old *State) Val {
	ret, ok := sf.Decl.Body.List[0].(*ast.ReturnStmt)
	if !ok {
		u.fail("internal: malformed specification function %s", sf.Name)
	}
	return u.evalSpecExpr(ret.Results[0], info, bind, oldBind, st, old)
}

func (u *Unit) evalSpecExpr(e ast.Expr, info *types.Info, bind, oldBind map[*types.Var]Val, st, old *State) Val {
	savedInfo, savedSpec, savedBind, savedOldBind, savedOld, savedSafety := u.info, u.inSpec, u.specBind, u.oldBind, u.oldState, u.noSafety
	u.info, u.inSpec, u.specBind, u.oldBind, u.oldState, u.noSafety = info, true, bind, oldBind, old, true
	defer func() {
		u.info, u.inSpec, u.specBind, u.oldBind, u.oldState, u.noSafety = savedInfo, savedSpec, savedBind, savedOldBind, savedOld, savedSafety
	}()
	// evaluate on a scratch copy: side facts produced while evaluating a specification are
	// dropped (sound in both directions: assumptions get weaker, goals harder)
	tmp := st.clone()
	v := u.evalExpr(e, tmp)
	// make heap keys first touched during evaluation known to the real state
	for k, t := range tmp.heap {
		if _, ok := st.heap[k]; !ok {
			st.heap[k] = t
		}
	}
	return v
}

// ---------------------------------------------------------------------------
// predicates (macros) and ghost vocabulary

func (u *Unit) isGhostFn(f *types.Func) bool {
	if f == nil || !isGhostVocabulary(f) {
		return false
	}
	return strings.HasSuffix(u.prog.Fset.Position(f.Pos()).Filename, "zz_spec_synth_verif.go")
}

func (u *Unit) predDecl(pr *Pred) *ast.FuncDecl {
	p := u.prog.Pkgs[pr.Pkg]
	for _, f := range p.Syntax {
		if !strings.HasSuffix(u.prog.Fset.Position(f.Pos()).Filename, "zz_spec_synth_verif.go") {
			continue
		}
		for _, d := range f.Decls {
			pname := pr.Name
			if i := strings.Index(pname, "["); i >= 0 {
				pname = pname[:i]
			}
			if fd, ok := d.(*ast.FuncDecl); ok && fd.Name.Name == pname {
				return fd
			}
		}
	}
	return nil
}

func (u *Unit) evalPred(pr *Pred, f *types.Func, args []Val, st *State) Val {
	sig := f.Type().(*types.Signature)
	rt := sig.Results().At(0).Type()
	srt := u.reg.sortOf(rt)
	if mt, ok := rt.Underlying().(*types.Map); ok {
		if b, ok := mt.Elem().Underlying().(*types.Basic); ok && b.Kind() == types.Bool {
			// map[K]bool results of ghost functions are mathematical sets
			srt = "(Array " + u.reg.sortOf(mt.Key()) + " Bool)"
		}
	}
	if pr.Ghost || u.specDepth > 3 {
		// uninterpreted mathematical function of its arguments (abstract predicates: also of the heap
		// locations listed in their reads clause)
		name := "ghost_" + sanitize(pr.Pkg+"."+pr.Name)
		var as, ss []string
		for _, a := range args {
			as = append(as, a.T)
			ss = append(ss, a.S)
		}
		for _, k := range pr.Reads {
			srtK := u.sortOfHeapKey(k)
			if srtK == "" {
				u.fail("abstract predicate %s: unknown heap key %q in reads clause", pr.Name, k)
			}
			as = append(as, u.heapTerm(st, k, srtK))
			ss = append(ss, srtK)
		}
		u.reg.declare(name, ss, srt)
		uf := Val{T: app(name, as...), S: srt, GT: rt}
		if pr.Abstract {
			u.revealAbstract(pr, uf, args, st)
		}
		return uf
	}
	fd := u.predDecl(pr)
	if fd == nil {
		u.fail("predicate %s not found in synthetic file", pr.Name)
	}
	info := u.prog.Pkgs[pr.Pkg].TypesInfo
	bind := map[*types.Var]Val{}
	for k, v := range u.specBind {
		bind[k] = v
	}
	i := 0
	for _, fl := range fd.Type.Params.List {
		for _, n := range fl.Names {
			if v, ok := info.Defs[n].(*types.Var); ok && i < len(args) {
				bind[v] = args[i]
			}
			i++
		}
	}
	ret := fd.Body.List[0].(*ast.ReturnStmt)
	u.specDepth++
	defer func() { u.specDepth-- }()
	savedInfo, savedBind, savedSpec, savedSafety := u.info, u.specBind, u.inSpec, u.noSafety
	u.info, u.specBind, u.inSpec, u.noSafety = info, bind, true, true
	defer func() { u.info, u.specBind, u.inSpec, u.noSafety = savedInfo, savedBind, savedSpec, savedSafety }()
	return u.evalExpr(ret.Results[0], st)
}

func (u *Unit) typeArg(call *ast.CallExpr, i int) types.Type {
	fun := ast.Unparen(call.Fun)
	var id *ast.Ident
	switch f := fun.(type) {
	case *ast.IndexExpr:
		id, _ = f.X.(*ast.Ident)
	case *ast.IndexListExpr:
		id, _ = f.X.(*ast.Ident)
	case *ast.Ident:
		id = f
	}
	if id == nil {
		return nil
	}
	inst, ok := u.info.Instances[id]
	if !ok || inst.TypeArgs == nil || i >= inst.TypeArgs.Len() {
		return nil
	}
	return inst.TypeArgs.At(i)
}

func (u *Unit) evalGhostCall(call *ast.CallExpr, f *types.Func, st *State) []Val {
	b := func(t string) []Val { return []Val{{T: t, S: "Bool", GT: tBool}} }
	switch f.Name() {
	case "implies":
		a := u.evalExpr(call.Args[0], st)
		// evaluate the consequent under the antecedent
		c := u.evalExpr(call.Args[1], st)
		return b(implies(a.T, c.T))
	case "iff":
		a := u.evalExpr(call.Args[0], st)
		c := u.evalExpr(call.Args[1], st)
		return b(eq(a.T, c.T))
	case "ite":
		c := u.evalExpr(call.Args[0], st)
		x := u.evalExpr(call.Args[1], st)
		y := u.evalExpr(call.Args[2], st)
		if x.S == "nil" {
			x = u.coerceNil(x, y.S)
		}
		if y.S == "nil" {
			y = u.coerceNil(y, x.S)
		}
		nv := x
		nv.T = ite(c.T, x.T, y.T)
		return []Val{nv}
	case "old":
		if u.oldState == nil {
			u.fail("old() used where no pre-state exists (%s)", u.pos(call))
		}
		saved := u.specBind
		nb := map[*types.Var]Val{}
		for k, v := range u.specBind {
			nb[k] = v
		}
		for k, v := range u.oldBind {
			nb[k] = v
		}
		u.specBind = nb
		tmp := u.oldState.clone()
		v := u.evalExpr(call.Args[0], tmp)
		for k, t := range tmp.heap {
			if _, ok := u.oldState.heap[k]; !ok {
				u.oldState.heap[k] = t
			}
		}
		u.specBind = saved
		return []Val{v}
	case "forall", "exists", "forall2", "forall3", "exists2":
		lit, ok := ast.Unparen(call.Args[0]).(*ast.FuncLit)
		if !ok {
			u.fail("quantifier body must be a function literal (%s)", u.pos(call))
		}
		var binders []string
		saved := u.specBind
		nb := map[*types.Var]Val{}
		for k, v := range u.specBind {
			nb[k] = v
		}
		for _, fl := range lit.Type.Params.List {
			for _, n := range fl.Names {
				v, _ := u.info.Defs[n].(*types.Var)
				srt := u.reg.sortOf(v.Type())
				// canonical name (binder position): the same clause evaluated twice gives the same text,
				// so that hypothesis and goal can be matched syntactically; fall back to a fresh name
				// when the name already occurs free in a bound value (no capture)
				name := fmt.Sprintf("q_%s_%d", n.Name, int(n.Pos()))
				clash := false
				for _, bv := range nb {
					if strings.Contains(bv.T, name) {
						clash = true
					}
				}
				if clash {
					u.reg.counter++
					name = fmt.Sprintf("q_%s!%d", n.Name, u.reg.counter)
				}
				binders = append(binders, "("+name+" "+srt+")")
				nb[v] = Val{T: name, S: srt, GT: v.Type()}
			}
		}
		u.specBind = nb
		ret := lit.Body.List[0].(*ast.ReturnStmt)
		body := u.evalExpr(ret.Results[0], st)
		u.specBind = saved
		return b("(" + strings.TrimRight(f.Name(), "23") + " (" + strings.Join(binders, " ") + ") " + body.T + ")")
	case "has":
		m := u.evalExpr(call.Args[0], st)
		k := u.evalExpr(call.Args[1], st)
		if strings.HasPrefix(m.S, "(Array ") {
			return b("(select " + m.T + " " + k.T + ")")
		}
		mt, ok := typeOf(u.info, call.Args[0]).Underlying().(*types.Map)
		if !ok {
			u.fail("has() on non-map (%s)", u.pos(call))
		}
		k = u.convert(k, mt.Key(), st)
		_, okv := u.mapLookup(st, m, k, mt)
		return []Val{okv}
	case "keys":
		m := u.evalExpr(call.Args[0], st)
		mt := typeOf(u.info, call.Args[0]).Underlying().(*types.Map)
		ks := u.reg.sortOf(mt.Key())
		setSort := "(Array " + ks + " Bool)"
		dom := u.mapDom(st, m, mt)
		return []Val{{T: ite(eq(m.T, "0"), "((as const "+setSort+") false)", dom), S: setSort, GT: typeOf(u.info, call)}}
	case "reached":
		// reached("callee#n"): the named call site has been executed on this path (inside a loop: in the
		// current iteration); a site that does not exist has not been reached
		lit, ok := ast.Unparen(call.Args[0]).(*ast.BasicLit)
		if !ok || u.fi == nil {
			u.fail("reached() needs a string literal naming a call site (%s)", u.pos(call))
		}
		name := strings.Trim(lit.Value, "\"`")
		if u.evalOwner != "" && u.evalOwner != u.fi.Key {
			// the clause belongs to a callee (its postcondition is being assumed at a call): which of ITS call sites
			// were executed is not visible here -- no information either way
			return []Val{{T: u.reg.fresh("reached_in_callee", "Bool"), S: "Bool", GT: types.Typ[types.Bool]}}
		}
		var alts []string
		if strings.HasPrefix(name, "loop#") {
			// reached("loop#N"): the N-th loop statement (of the expansion) has been entered
			var k int
			fmt.Sscanf(name, "loop#%d", &k)
			if k >= 1 && k <= len(u.fi.loops) {
				if t, ok := st.reached[u.fi.loops[k-1]]; ok {
					alts = append(alts, t)
				}
			}
		}
		for _, sn := range findCallSites(u.prog, u.fi, name) {
			if site, ok := sn.(*ast.CallExpr); ok {
				if t, ok := st.reached[site]; ok {
					alts = append(alts, t)
				}
			}
		}
		if len(alts) == 0 {
			return b("false")
		}
		return b(or(alts...))
	case "fst", "snd":
		var vs []Val
		if len(call.Args) == 1 {
			vs = u.evalMulti(call.Args[0], st)
		} else {
			vs = []Val{u.evalExpr(call.Args[0], st), u.evalExpr(call.Args[1], st)}
		}
		if len(vs) != 2 {
			u.fail("fst/snd need a two-valued argument (%s)", u.pos(call))
		}
		if f.Name() == "fst" {
			return vs[:1]
		}
		return vs[1:]
	case "same":
		a := u.evalExpr(call.Args[0], st)
		c := u.evalExpr(call.Args[1], st)
		if a.S == "nil" {
			a = u.coerceNil(a, c.S)
		}
		if c.S == "nil" {
			c = u.coerceNil(c, a.S)
		}
		return b(eq(a.T, c.T))
	case "setEq":
		a := u.evalExpr(call.Args[0], st)
		c := u.evalExpr(call.Args[1], st)
		return b(eq(a.T, c.T))
	case "dynIs":
		x := u.evalExpr(call.Args[0], st)
		t := u.typeArg(call, 0)
		return b(u.dynTest(st, x, t))
	case "unboxed":
		x := u.evalExpr(call.Args[0], st)
		t := u.typeArg(call, 0)
		return []Val{u.unbox(st, x, t)}
	case "seqEq":
		a := u.evalExpr(call.Args[0], st)
		c := u.evalExpr(call.Args[1], st)
		if a.S == "nil" {
			a = u.coerceNil(a, c.S)
		}
		if c.S == "nil" {
			c = u.coerceNil(c, a.S)
		}
		u.reg.counter++
		j := fmt.Sprintf("q_j!%d", u.reg.counter)
		la, lc := u.sliceLen(a), u.sliceLen(c)
		return b(and(eq(la, lc), fmt.Sprintf("(forall ((%s Int)) (=> (and (<= 0 %s) (< %s %s)) (= (select (arr_%s %s) %s) (select (arr_%s %s) %s))))", j, j, j, la, a.S, a.T, j, c.S, c.T, j)))
	case "typeOK":
		x := u.evalExpr(call.Args[0], st)
		pt, ok := typeOf(u.info, call.Args[0]).Underlying().(*types.Pointer)
		if !ok {
			u.fail("typeOK() needs a pointer argument (%s)", u.pos(call))
		}
		key := typeKey(pt.Elem())
		conj := []string{}
		for _, ti := range u.prog.CS.TypeInvs {
			if ti.Pkg+"."+ti.Type != key {
				continue
			}
			sf := u.specFn(ti.Clause)
			info := u.prog.Pkgs[sf.Pkg].TypesInfo
			bind := map[*types.Var]Val{}
			for _, fl := range sf.Decl.Type.Params.List {
				for _, n := range fl.Names {
					if v, ok := info.Defs[n].(*types.Var); ok {
						bind[v] = x
					}
				}
			}
			saved, savedInfo := u.specBind, u.info
			u.specBind, u.info = bind, info
			ret := sf.Decl.Body.List[0].(*ast.ReturnStmt)
			v := u.evalExpr(ret.Results[0], st)
			u.specBind, u.info = saved, savedInfo
			conj = append(conj, v.T)
		}
		return b(and(not(eq(x.T, "0")), and(conj...)))
	case "unchangedExcept":
		// every field of *p has its old() value, except the named ones
		pv := u.evalExpr(call.Args[0], st)
		pt, ok := typeOf(u.info, call.Args[0]).Underlying().(*types.Pointer)
		if !ok || u.oldState == nil {
			u.fail("unchangedExcept() needs a pointer argument and a pre-state (%s)", u.pos(call))
		}
		stt, ok := pt.Elem().Underlying().(*types.Struct)
		if !ok {
			u.fail("unchangedExcept() needs a pointer to a struct (%s)", u.pos(call))
		}
		except := map[string]bool{}
		for _, a := range call.Args[1:] {
			tv := u.info.Types[a]
			if tv.Value == nil {
				u.fail("unchangedExcept(): field names must be constants (%s)", u.pos(call))
			}
			except[constantString(tv.Value)] = true
		}
		for name := range except {
			found := false
			for i := 0; i < stt.NumFields(); i++ {
				if stt.Field(i).Name() == name {
					found = true
				}
			}
			if !found {
				u.fail("unchangedExcept(): %s has no field %q (%s)", pt.Elem(), name, u.pos(call))
			}
		}
		// the pointer itself is evaluated in the old state for the old side
		oldP := pv
		var conj []string
		for i := 0; i < stt.NumFields(); i++ {
			f := stt.Field(i)
			if except[f.Name()] {
				continue
			}
			nv := u.loadField(st, pv, pt.Elem(), f)
			ov := u.loadField(u.oldState, oldP, pt.Elem(), f)
			conj = append(conj, eq(nv.T, ov.T))
		}
		return b(and(conj...))
	case "allocated":
		x := u.evalExpr(call.Args[0], st)
		return b("(<= " + x.T + " " + st.alloc + ")")
	case "isFresh":
		x := u.evalExpr(call.Args[0], st)
		if u.oldState == nil {
			u.fail("isFresh() needs a pre-state (%s)", u.pos(call))
		}
		return b(and("(> "+x.T+" "+u.oldState.alloc+")", "(<= "+x.T+" "+st.alloc+")"))
	}
	u.fail("unsupported ghost function %s", f.Name())
	return nil
}

// revealAbstract: inside the package that defines an abstract predicate its definition is
// available: the uninterpreted application equals the body for these arguments and this heap.
func (u *Unit) revealAbstract(pr *Pred, uf Val, args []Val, st *State) {
	if u.pkg == nil || u.revealing {
		return
	}
	here := shortPkg(u.unitPkgPath())
	for _, rv := range u.prog.CS.Reveals {
		if rv.Pkg != here || rv.Target != pr.Pkg+"."+pr.Name && rv.Target != lastElem(pr.Pkg)+"."+pr.Name {
			continue
		}
		for _, a := range args {
			if strings.Contains(a.T, "q_") {
				return // depends on a bound variable: no closed definitional equation
			}
		}
		sf := u.specFn(rv.Clause)
		info := u.prog.Pkgs[sf.Pkg].TypesInfo
		bind := map[*types.Var]Val{}
		i := 0
		for _, fl := range sf.Decl.Type.Params.List {
			for _, n := range fl.Names {
				if v, ok := info.Defs[n].(*types.Var); ok && i < len(args) {
					bind[v] = args[i]
				}
				i++
			}
		}
		u.revealing = true
		tmp := st.clone()
		before := map[string]bool{}
		for k := range tmp.heap {
			before[k] = true
		}
		u.readTrace = map[string]bool{}
		body := u.evalSpecExpr(sf.Decl.Body.List[0].(*ast.ReturnStmt).Results[0], info, bind, bind, tmp, tmp)
		trace := u.readTrace
		u.readTrace = nil
		u.revealing = false
		allowed := map[string]bool{}
		for _, k := range pr.Reads {
			allowed[k] = true
		}
		for k := range trace {
			if !allowed[k] {
				u.fail("reveal of %s reads heap key %s which is not in the reads clause of the abstract predicate", rv.Target, k)
			}
		}
		u.reg.axiom(eq(uf.T, body.T))
	}
}

func lastElem(p string) string {
	if i := strings.LastIndex(p, "/"); i >= 0 {
		return p[i+1:]
	}
	return p
}

func (u *Unit) unitPkgPath() string {
	if u.fi != nil {
		return u.fi.Pkg.PkgPath
	}
	if u.con != nil {
		if p := u.prog.Pkgs[u.con.Pkg]; p != nil {
			return p.PkgPath
		}
	}
	return u.pkg.PkgPath
}

// currentParam: the current value of the idx-th parameter (-1: the receiver) of the function under
// verification, looked up by position (the contract may call it by another name than the code)
func (u *Unit) currentParam(st *State, idx int) (Val, bool) {
	if u.fi == nil || u.fi.Obj == nil || len(u.inlineStack) > 0 {
		return Val{}, false
	}
	sig := u.fi.Obj.Type().(*types.Signature)
	var pv *types.Var
	if idx < 0 {
		pv = sig.Recv()
	} else if idx < sig.Params().Len() {
		pv = sig.Params().At(idx)
	}
	if pv == nil {
		return Val{}, false
	}
	v, ok := st.env[pv]
	return v, ok
}
